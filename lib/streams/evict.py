"""Stream `evict` (C10): (a) the LRU policy with MaxKeys / MaxInuse / both, LRUSamples 1..5, MaxKeys below and
above the partition count, 1-3 members, every entry path: after every Put the white-box statistics of
every primary fragment are read; (b) MaxIdleDuration, DMap-wide or in the DMap's own configuration, with
a virtual clock: keys are touched (read / written) or left alone, the clock is moved up to, onto and past
their idle deadlines, the background scan is run, and every member's primary and backup copies are read.

Oracle (independent of the Lean model):
  * a Put never fails; the key just written reads back at once;
  * every primary fragment holds at most max(1, MaxKeys div owned) keys (owned = partitions the member owns),
    and with equally sized entries at most MaxInuse div owned + one entry of bytes in use;
  * after a background scan an entry untouched for longer than the idle window (or past its expiry) is gone
    from the owner and from every backup owner, and an entry touched within the window is still there."""
from streams.cluster import T0, hx

HEADER = 3
REQUIRED_SHAPES = ["evicted_for_maxkeys", "evicted_for_maxinuse", "both_limits", "maxkeys_below_partitions", "samples_1",
                   "custom_dmap_limits", "idle_evicted", "idle_survivor", "idle_custom_config", "ttl_evicted_on_backup", "touched_by_get"]
ESIZE = 29 + 3 + 8


class Oracle:
    def __init__(self):
        self.shapes = {}
        self.now = T0
        self.cfg = {}
        self.route = {}     # (dm, key) -> (owner, baks, part)
        self.present = {}   # (dm, key) -> [val, ttl_ms]
        self.la = {}        # (dm, key) -> last access ns
        self.last_put = None
        self.pending_scan = None

    def hit(self, s):
        self.shapes[s] = self.shapes.get(s, 0) + 1

    def ev_of(self, dm):
        """(lru, MaxKeys, MaxInuse) that apply to the DMap: its own settings when it is the custom DMap"""
        c = self.cfg
        if c.get("cdm") == dm:
            return (c.get("clru", c.get("lru", "0")) == "1", int(c.get("cmaxkeys", c.get("maxkeys", 0))), int(c.get("cmaxinuse", c.get("maxinuse", 0))))
        return (c.get("lru", "0") == "1", int(c.get("maxkeys", 0)), int(c.get("maxinuse", 0)))

    def idle_of(self, dm):
        if self.cfg.get("cdm") == dm:
            return int(self.cfg.get("cidle_ms", 0))
        return int(self.cfg.get("idle_ms", 0))

    def observe(self, op, reply):
        f = op.split()
        name, a = f[0], f[1:]
        if reply.startswith("err:") or reply.startswith("other:") or reply in ("bad-op", "no-cluster", "down", "neterr", "hang", "dead"):
            return "unexpected reply %r to %s" % (reply[:160], op[:100])
        if name == "clock":
            self.now = int(a[0])
            return None
        if name == "c.new":
            self.cfg = dict(kv.split("=") for kv in a if "=" in kv)
            self.route, self.present, self.la = {}, {}, {}
            if int(self.cfg.get("lrusamples", 0)) == 1:
                self.hit("samples_1")
            return None
        if name == "c.own":
            p, b = reply.split("pick=")[1].split()[0].split("/")
            part = int(reply.split("part=")[1])
            self.route[(a[0], a[1])] = (int(p.split(",")[-1]), [int(x) for x in b.split(",")] if b != "-" else [], part)
            return None
        if name in ("c.putv", "c.put"):
            dk = (a[2], a[3])
            res = reply.split()[0]
            if res != "ok":
                return "Put failed under the configured limits: %s" % reply[:120]
            if name == "c.putv":
                vs = reply.split("pick=")[1].split()[0]
                if vs != "-":
                    for v in vs.split(","):
                        self.present.pop((a[2], v), None)
                    lru, K, B = self.ev_of(a[2])
                    if not lru:
                        return "a Put into a DMap without an eviction policy evicted %s (the limits of another DMap were applied)" % vs
                    if self.cfg.get("cdm"):
                        self.hit("custom_dmap_limits")
                    if K and B and len(vs.split(",")) >= 1:
                        self.hit("both_limits")
                    elif K:
                        self.hit("evicted_for_maxkeys")
                    elif B:
                        self.hit("evicted_for_maxinuse")
            ttl = 0
            if "PX" in a:
                ttl = self.now // 1_000_000 + int(a[a.index("PX") + 1])
            self.present[dk] = [a[4], ttl]
            self.la[dk] = self.now
            self.last_put = dk
            return None
        if name == "c.get":
            dk = (a[2], a[3])
            cur = self.present.get(dk)
            live = cur is not None and not (cur[1] and self.now // 1_000_000 >= cur[1])
            if cur is not None:
                self.la[dk] = self.now          # the owner's storage read touches the entry
                self.hit("touched_by_get")
            if dk == self.last_put and live and reply != cur[0]:
                return "the key just written does not read back: %s" % reply[:60]
            if live:
                return None if reply == cur[0] else "get of a stored key returned %s" % reply[:60]
            return None if reply == "nf" else "get of an absent / expired key returned %s" % reply[:60]
        if name == "wb.stats":
            lru, K, B = self.ev_of(a[0])
            if not lru:
                return None
            for part in reply.split():
                m, rest = part.split(":", 1)
                owned = int(rest.split(";")[0].split("=")[1])
                frs = rest.split(";")[1]
                if frs == "-" or owned == 0:
                    continue
                total = 0
                for fr in frs.split(","):
                    pid, ln, inuse = (int(x) for x in fr.split(":"))
                    total += ln
                    if K:
                        bound = max(1, K // owned)
                        if K < int(self.cfg.get("parts", 7)):
                            self.hit("maxkeys_below_partitions")
                        if ln > bound:
                            return "%s partition %d holds %d keys of the DMap, its share of MaxKeys=%d over %d owned partitions is %d" % (m, pid, ln, K, owned, bound)
                    if B and inuse > B // owned + ESIZE:
                        return "%s partition %d has %d bytes in use, its share of MaxInuse=%d over %d owned partitions is %d (+ one entry of %d)" % (
                            m, pid, inuse, B, owned, B // owned, ESIZE)
                if K and total > owned * max(1, K // owned):
                    return "%s holds %d keys, bound %d" % (m, total, owned * max(1, K // owned))
            return None
        if name == "bg.evict":
            # decide, per key, what a scan must do
            must_go, must_stay = [], []
            nowms = self.now // 1_000_000
            for dk, cur in self.present.items():
                idle = self.idle_of(dk[0])
                exp = cur[1] and nowms >= cur[1]
                idl = idle and nowms >= (idle * 1_000_000 + self.la[dk]) // 1_000_000
                (must_go if (exp or idl) else must_stay).append((dk, "expired" if exp else "idle"))
            self.pending_scan = (must_go, must_stay)
            for dk, _ in must_go:
                self.present.pop(dk)
            return None
        if name == "wb":
            dk = (a[0], a[1])
            if self.pending_scan is None or dk not in self.route:
                return None
            must_go, must_stay = self.pending_scan
            owner, baks, _ = self.route[dk]
            copies = {}
            for part in reply.split():
                m, rest = part.split(":", 1)
                if rest == "down":
                    continue
                p, b = rest.split(",")
                copies[int(m[1:])] = (p[2:], b[2:])
            for (k, why) in must_go:
                if k == dk:
                    if copies[owner][0] != "-":
                        return "after a background scan the %s entry is still stored on its owner m%d" % (why, owner)
                    self.hit("idle_evicted" if why == "idle" else "ttl_evicted")
                    if why == "idle" and self.cfg.get("cdm") == dk[0]:
                        self.hit("idle_custom_config")
                    for b in baks:
                        if copies[b][1] != "-":
                            return "after a background scan the %s entry is gone from the owner but still stored on backup owner m%d" % (why, b)
                        if why == "expired":
                            self.hit("ttl_evicted_on_backup")
            for (k, _) in must_stay:
                if k == dk:
                    if copies[owner][0] == "-":
                        return "an entry touched within the idle window (and not expired) was evicted by the background scan"
                    self.hit("idle_survivor")
            return None
        return None


class Gen:
    def __init__(self, rng, tier="quick"):
        self.rng = rng

    def episode(self, orc, nops):
        r = self.rng
        if r.random() < 0.6:
            yield from self.lru(orc, nops)
        else:
            yield from self.idle(orc, nops)

    def lru(self, orc, nops):
        r = self.rng
        n = r.choice([1, 2, 3])
        R = r.choice([1, 2]) if n > 1 else 1
        parts = r.choice([3, 7])
        kind = r.choice(["keys", "keys", "inuse", "both"])
        K = r.choice([1, 2, parts - 1, parts, 2 * parts, 3 * parts + 1]) if kind in ("keys", "both") else 0
        B = r.choice([ESIZE - 5, ESIZE * parts, ESIZE * parts * 2 + 7, 100]) if kind in ("inuse", "both") else 0
        S = r.choice([1, 2, 5, 0])
        yield "watchdog 120s"
        yield "clock %d" % T0
        where = r.choice(["global", "global", "custom", "other"])
        if where == "global":
            yield "c.new n=%d r=%d w=1 rq=1 rr=0 parts=%d tsize=4096 lru=1 maxkeys=%d maxinuse=%d lrusamples=%d" % (n, R, parts, K, B, S)
        elif where == "custom":
            # the limits belong to the DMap `dm` alone (config.DMaps.Custom); `free` has none
            yield "c.new n=%d r=%d w=1 rq=1 rr=0 parts=%d tsize=4096 cdm=dm clru=1 cmaxkeys=%d cmaxinuse=%d clrusamples=%d%s" % (n, R, parts, K, B, S, r.choice(["", " cnoeng=1"]))
        else:
            # every DMap has the limits except `free`, whose own settings say: no policy
            yield "c.new n=%d r=%d w=1 rq=1 rr=0 parts=%d tsize=4096 lru=1 maxkeys=%d maxinuse=%d lrusamples=%d cdm=free clru=0 cmaxkeys=0 cmaxinuse=0" % (n, R, parts, K, B, S)
        keys = [hx(b"e%02d" % i) for i in range(24)]
        for k in keys:
            yield "c.own dm %s" % k
        if where != "global":
            for k in keys:
                yield "c.own free %s" % k
        now = T0
        for i in range(nops or 50):
            now += 1_000_000
            yield "clock %d" % now
            k = r.choice(keys)
            if where != "global" and r.random() < 0.35:
                # the DMap without limits keeps everything
                yield "c.putv %s %d free %s %s" % (r.choice(["emb", "emb", "cli", "raw"]), r.randrange(n), k, hx(b"f%07d" % i))
                yield "c.get %s %d free %s" % (r.choice(["emb", "cli"]), r.randrange(n), r.choice(keys))
                continue
            yield "c.putv %s %d dm %s %s" % (r.choice(["emb", "emb", "cli", "raw"]), r.randrange(n), k, hx(b"v%07d" % i))
            yield "wb.stats dm"
            yield "c.get %s %d dm %s" % (r.choice(["emb", "cli"]), r.randrange(n), k)
            if r.random() < 0.3:
                yield "c.get emb %d dm %s" % (r.randrange(n), r.choice(keys))

    def idle(self, orc, nops):
        r = self.rng
        n = r.choice([1, 2, 3])
        R = r.choice([1, 2]) if n > 1 else 1
        I = r.choice([200, 1000])
        custom = r.random() < 0.5
        tsize = r.choice([4096, 256])        # 256: two entries per table, so most keys live in a table that is not written anymore
        yield "watchdog 120s"
        yield "clock %d" % T0
        if custom:
            yield "c.new n=%d r=%d w=1 rq=1 rr=0 parts=3 tsize=%d cdm=cx cidle_ms=%d" % (n, R, tsize, I)
        else:
            yield "c.new n=%d r=%d w=1 rq=1 rr=0 parts=3 tsize=%d idle_ms=%d" % (n, R, tsize, I)
        dms = ["cx", "dm"] if custom else ["dm"]
        keys = [(d, hx(b"i%02d" % i)) for d in dms for i in range(5)]
        for d, k in keys:
            yield "c.own %s %s" % (d, k)
        now = T0
        ver = 0
        if tsize == 256:
            # directed: fill several tables, let more than the idle window pass, read everything: a Get stamps the
            # entry before the idle test looks at it - wherever in the fragment the entry lives - so every read succeeds
            for d, k in keys:
                ver += 1
                yield "c.put emb %d %s %s %s" % (r.randrange(n), d, k, hx(b"v%d" % ver + b"p" * 70))
            now += (I // 2) * 1_000_000
            yield "clock %d" % now
            for d, k in keys[::2]:
                yield "c.get %s %d %s %s" % (r.choice(["emb", "cli", "raw"]), r.randrange(n), d, k)
            now += (I // 2 + 50) * 1_000_000
            yield "clock %d" % now
            for d, k in keys[::2]:
                yield "c.get %s %d %s %s" % (r.choice(["emb", "cli", "raw"]), r.randrange(n), d, k)
            yield "bg.evict"
            for dd, kk in keys:
                yield "wb %s %s" % (dd, kk)
        for _ in range(nops or 50):
            x = r.random()
            d, k = r.choice(keys)
            if x < 0.35:
                ver += 1
                opts = " PX %d" % r.choice([300, 5000]) if r.random() < 0.3 else ""
                yield "c.put %s %d %s %s %s%s" % (r.choice(["emb", "cli", "raw"]), r.randrange(n), d, k, hx(b"v%d" % ver + b"p" * (70 if tsize == 256 else 0)), opts)
            elif x < 0.55:
                yield "c.get %s %d %s %s" % (r.choice(["emb", "cli", "raw"]), r.randrange(n), d, k)
            elif x < 0.8:
                # onto / around an idle deadline
                las = [v for dk, v in orc.la.items() if dk in orc.present]
                if las and r.random() < 0.7:
                    tgt = (I * 1_000_000 + r.choice(las)) // 1_000_000 + r.choice([-1, 0, 0, 1, 50])
                    now = max(now + 1_000_000, tgt * 1_000_000)
                else:
                    now += r.choice([1, 50, 150, 600]) * 1_000_000
                yield "clock %d" % now
            else:
                yield "bg.evict"
                for dd, kk in keys:
                    yield "wb %s %s" % (dd, kk)
