"""Stream `linear` (C01): per-key histories of Put (plain / NX / XX), Get and Delete on a stable cluster
(1-3 members, R 1-3, read-repair off / on, small tables so that fragments span several tables),
issued through embedded clients on any member, cluster clients and raw RESP:
  * scripted interleavings: a second operation is started INSIDE the first one at a yield point of the
    harness build — after a Get has read the owner's copy and before it asks the replicas / repairs;
    between a Put's replication and its local write; between a Delete's remote and local deletes; between
    loading a fragment and locking it (with the empty-fragment janitor as the intruder);
  * real concurrency: several clients hammer one key, every invocation and response is timestamped.
No model is run in lock-step (the operations overlap); the Lean theorems of C01 are about the micro-step
model of exactly these sections, whose shapes are extracted from the source on every run.

Oracle: a linearizability checker (Wing & Gong search with memoisation) for a single register with
conditional writes, on every key's complete history."""
import sys

from streams.cluster import hx

NO_MODEL = True
HEADER = 3
REQUIRED_SHAPES = ["put_inside_janitor_window", "get_vs_delete", "get_vs_put", "put_vs_get_blocked", "delete_vs_get", "janitor_vs_first_put", "janitor_vs_put_after_delete",
                   "repair_vs_delete", "conditional_race", "concurrent_history", "linearizable_checked"]


def linearizable(hist):
    """hist: list of (inv, resp, op, arg, result).  Register with put / putnx / putxx / get / del."""
    n = len(hist)
    if n > 40:
        return True
    sys.setrecursionlimit(10000)
    seen = set()

    def apply(state, h):
        _, _, op, arg, res = h
        if op == "put":
            return (res == "ok"), arg
        if op == "putnx":
            if state is None:
                return (res == "ok"), arg
            return (res == "keyfound"), state
        if op == "putxx":
            if state is not None:
                return (res == "ok"), arg
            return (res == "nf"), state
        if op == "get":
            return (res == (state if state is not None else "nf")), state
        if op == "del":
            return True, None
        return False, state

    def search(remaining, state):
        if not remaining:
            return True
        key = (remaining, state)
        if key in seen:
            return False
        seen.add(key)
        first_resp = min(hist[i][1] for i in remaining)
        for i in remaining:
            if hist[i][0] > first_resp:
                continue
            ok, st2 = apply(state, hist[i])
            if ok and search(remaining - {i}, st2):
                return True
        return False

    return search(frozenset(range(n)), None)


class Oracle:
    def __init__(self):
        self.shapes = {}
        self.hist = {}        # (dm, key) -> list of (inv, resp, op, arg, res)
        self.t = 0
        self.cfg = {}

    def hit(self, s):
        self.shapes[s] = self.shapes.get(s, 0) + 1

    @staticmethod
    def parse(opline):
        """register view of an operation line: (dm, key, op, arg)"""
        f = opline.split()
        if f[0] == "c.put":
            up = [x.upper() for x in f[6:]]
            return f[3], f[4], ("putnx" if "NX" in up else "putxx" if "XX" in up else "put"), f[5]
        if f[0] == "c.get":
            return f[3], f[4], "get", "-"
        if f[0] == "c.del":
            return f[3], f[4], "del", "-"
        return None

    def record(self, opline, reply, inv, resp):
        p = self.parse(opline)
        if p is None:
            return
        dm, key, op, arg = p
        self.hist.setdefault((dm, key), []).append((inv, resp, op, arg, reply))

    def observe(self, op, reply):
        f = op.split()
        name, a = f[0], f[1:]
        if reply.startswith("err:") or reply.startswith("other:") or reply.split()[0] in ("bad-op", "no-cluster", "down", "neterr", "hang", "wq", "rq", "cq"):
            return "unexpected reply %r to %s" % (reply[:160], op[:100])
        if name == "c.new":
            self.cfg = dict(kv.split("=") for kv in a if "=" in kv)
            self.hist = {}
            return None
        if name in ("c.put", "c.get", "c.del"):
            self.t += 10
            self.record(op, reply, self.t, self.t + 1)
            return None
        if name == "c.inter":
            sep = a.index("--")
            outer, inner = " ".join(a[1:sep]), " ".join(a[sep + 1:])
            r_outer, st = reply.split(" inner=")
            self.t += 20
            t = self.t
            if st == "-":
                self.record(outer, r_outer, t, t + 10)
                self.t += 20
                return None
            state, r_inner = st.split(":", 1)
            self.record(outer, r_outer, t, t + 10)
            if state == "ran":
                self.record(inner, r_inner, t + 3, t + 4)
            else:
                self.record(inner, r_inner, t + 3, t + 12)
            if r_inner.startswith("err") or r_inner.startswith("other"):
                return "the operation started inside another one failed: %s" % r_inner[:100]
            self.t += 20
            shape = {"get.owner-read": {"c.del": "get_vs_delete", "c.put": "get_vs_put"},
                     "put.replicated": {"c.get": "put_vs_get_blocked", "c.put": "conditional_race"},
                     "del.others-deleted": {"c.get": "delete_vs_get"},
                     "get.before-repair": {"c.del": "repair_vs_delete"}}.get(a[0], {}).get(inner.split()[0])
            if a[0] == "janitor.locking":
                shape = "put_inside_janitor_window"
            if a[0] == "put.loaded" and inner.startswith("bg.janitor"):
                shape = "janitor_vs_put_after_delete" if any(h[2] == "del" for h in self.hist.get(tuple(outer.split()[3:5]), [])) else "janitor_vs_first_put"
            if shape:
                self.hit(shape)
            return None
        if name == "c.conc":
            self.hit("concurrent_history")
            base = self.t + 100
            mx = 0
            for e in reply[5:].split(";"):
                c, o, arg, inv, resp, res = e.split(":")
                self.hist.setdefault((a[0], a[1]), []).append((base + int(inv), base + int(resp), o, arg, res))
                mx = max(mx, int(resp))
            self.t = base + mx + 100
            return None
        if name == "wb":
            # end of a scenario on this key: is its whole history linearizable?
            dk = (a[0], a[1])
            h = self.hist.get(dk, [])
            if not h:
                return None
            self.hit("linearizable_checked")
            if not linearizable(h):
                h2 = sorted(h)
                rr = "on" if self.cfg.get("rr", "0") == "1" else "off"
                txt = " ".join("[%d,%d]%s(%s)->%s" % (i, r, o, x[:8], y[:8]) for (i, r, o, x, y) in h2)[:900]
                if rr == "on":
                    # is it exactly the read-repair resurrection (F14)?  A Get that overlaps a Delete gathered the old
                    # value and its repair wrote it back after the Delete: the history becomes linearizable when
                    # that write-back is added as a phantom Put of the value, starting inside that Get.
                    for g in h:
                        if g[2] == "get" and g[4] not in ("nf",) and any(d[2] == "del" and d[0] < g[1] and g[0] < d[1] for d in h):
                            phantom = (g[0] + 1, max(x[1] for x in h) + 1000, "put", g[4], "ok")
                            if linearizable(h + [phantom]):
                                return "read-repair wrote back the value a Get had gathered before an overlapping Delete completed: the deleted key is readable again (read-repair on): " + txt
                return ("history of the key is not linearizable (read-repair %s): " % rr) + txt
            return None
        return None


class Gen:
    def __init__(self, rng, tier="quick"):
        self.rng = rng

    def janitor_window(self, orc):
        """directed: one member, one partition, one DMap whose only fragment is empty (its last key was deleted).  The
        empty-fragment janitor is stopped at the moment it is about to lock that fragment; a Put runs there and is
        acknowledged; the janitor goes on.  It looks at the fragment under the lock it holds: the Put is kept."""
        r = self.rng
        yield "watchdog 60s"
        yield "clock 0"
        yield "c.new n=1 r=1 w=1 rq=1 rr=0 parts=1 tsize=4096"
        for i in range(4):
            key = hx(b"jw%d" % i)
            yield "c.put emb 0 only %s %s" % (key, hx(b"a%d" % i))
            yield "c.del emb 0 only %s" % key
            yield "c.inter janitor.locking bg.janitor -- c.put %s 0 only %s %s" % (r.choice(["emb", "cli", "raw"]), key, hx(b"b%d" % i))
            yield "c.get emb 0 only %s" % key
            yield "wb only %s" % key
            yield "c.del emb 0 only %s" % key

    def episode(self, orc, nops):
        if getattr(self, "ep", 0) % 5 == 4:
            yield from self.janitor_window(orc)
            return
        r = self.rng
        n = r.choice([1, 2, 3, 3])
        R = r.choice([1, 2, 3]) if n > 1 else 1
        R = min(R, n)
        rr = r.choice([0, 0, 1])
        yield "watchdog 120s"
        yield "clock 0"
        yield "c.new n=%d r=%d w=1 rq=1 rr=%d parts=%d tsize=%d" % (n, R, rr, r.choice([3, 7]), r.choice([256, 4096]))
        kn = [0]

        def ent():
            return "%s %d" % (r.choice(["emb", "emb", "cli", "raw"]), r.randrange(n))

        def val():
            kn[0] += 1
            return hx(b"v%d" % kn[0] + b"x" * r.choice([0, 0, 60]))

        for sc in range(nops or 10):
            kn[0] += 1
            dm = "lin"
            key = hx(b"key%d" % kn[0])
            kind = r.choice(["S1", "S1", "S2", "S3", "S4", "S5", "S6", "S7", "S9", "S10", "CONC", "CONC"])
            if kind == "S1":
                yield "c.put %s %s %s %s" % (ent(), dm, key, val())
                yield "c.inter get.owner-read c.get %s %s %s -- c.del %s %s %s" % (ent(), dm, key, ent(), dm, key)
            elif kind == "S2":
                yield "c.put %s %s %s %s" % (ent(), dm, key, val())
                yield "c.inter get.owner-read c.get %s %s %s -- c.put %s %s %s %s" % (ent(), dm, key, ent(), dm, key, val())
            elif kind == "S3":
                yield "c.inter get.owner-read c.get %s %s %s -- c.put %s %s %s %s" % (ent(), dm, key, ent(), dm, key, val())
            elif kind == "S4":
                yield "c.put %s %s %s %s" % (ent(), dm, key, val())
                yield "c.inter put.replicated c.put %s %s %s %s -- c.get %s %s %s" % (ent(), dm, key, val(), ent(), dm, key)
            elif kind == "S5":
                yield "c.put %s %s %s %s" % (ent(), dm, key, val())
                yield "c.inter del.others-deleted c.del %s %s %s -- c.get %s %s %s" % (ent(), dm, key, ent(), dm, key)
            elif kind == "S6":
                dm = "jan%d" % kn[0]          # a DMap nobody has written yet: its fragment is created by this Put
                yield "c.inter put.loaded c.put %s %s %s %s -- bg.janitor" % (ent(), dm, key, val())
            elif kind == "S7":
                dm = "jan%d" % kn[0]
                yield "c.put %s %s %s %s" % (ent(), dm, key, val())
                yield "c.del %s %s %s" % (ent(), dm, key)
                yield "c.inter put.loaded c.put %s %s %s %s -- bg.janitor" % (ent(), dm, key, val())
            elif kind == "S9":
                yield "c.put %s %s %s %s" % (ent(), dm, key, val())
                yield "c.inter get.before-repair c.get %s %s %s -- c.del %s %s %s" % (ent(), dm, key, ent(), dm, key)
            elif kind == "S10":
                if r.random() < 0.5:
                    yield "c.put %s %s %s %s" % (ent(), dm, key, val())
                c1, c2 = r.choice(["", " NX", " XX"]), r.choice([" NX", " XX"])
                yield "c.inter put.replicated c.put %s %s %s %s%s -- c.put %s %s %s %s%s" % (ent(), dm, key, val(), c1, ent(), dm, key, val(), c2)
            else:
                yield "c.conc %s %s %d %d %d" % (dm, key, r.choice([2, 3, 4]), r.choice([4, 6]), r.randrange(10 ** 6))
            for _ in range(r.randint(1, 3)):
                yield "c.get %s %s %s" % (ent(), dm, key)
            yield "wb %s %s" % (dm, key)
