"""Stream `parsers` (C16a): every protocol.Parse* function on argument vectors — exhaustively for short
vectors over a token alphabet, randomly for longer ones — in lock-step with the IR interpreter running
the translated parser.  Oracle: the real parser answers (value or error); a panic or a spin is a
violation.  The diff validates the translator."""
import itertools

HEADER = 0
REQUIRED_SHAPES = ["exhaustive_short", "random_long", "option_without_value", "unknown_option"]

ALPHA = [b"k", b"NX", b"px", b"EX", b"MATCH", b"COUNT", b"RC", b"RW", b"0", b"10", b"-1", b"1.5", b"abc", b""]
EXTRA = [b"XX", b"EXAT", b"PXAT", b"match", b"count", b"rc", b"LC", b"CR", b"99999999999999999999999", b"NaN", b"\xff\x00", b"+5", b"1e3", b" 1"]


def hx(b):
    return b.hex() if b else "-"


class Oracle:
    def __init__(self):
        self.shapes = {}

    def hit(self, s):
        self.shapes[s] = self.shapes.get(s, 0) + 1

    def observe(self, op, reply):
        f = op.split()
        if f[0] == "parse":
            if reply not in ("ok", "err"):
                return "%s on %d arguments: %s" % (f[1], len(f) - 2, reply[:200])
        return None


class Gen:
    def __init__(self, rng, tier="quick"):
        self.rng = rng
        self.tier = tier

    def episode(self, orc, nops):
        r = self.rng
        POS = [b"7", b"dm", b"key", b"0", b"val"]
        KW = [b"NX", b"XX", b"EX", b"PX", b"EXAT", b"PXAT", b"MATCH", b"COUNT", b"RC", b"ex", b"Px", b"bogus", b"RW"]
        VAL = [b"1", b"10", b"1.5", b"x", b"", b"-3"]
        seen = set()
        for t in ALPHA + EXTRA + POS + KW + VAL:
            if t not in seen:
                seen.add(t)
                yield "numok %s" % hx(t)
        names = (yield "parsers").split(",")
        # one episode = a slice of the parsers (episodes differ by seed)
        r.shuffle(names)
        maxlen = 4 if self.tier == "quick" else 5
        alpha = ALPHA if self.tier == "quick" else ALPHA + EXTRA[:4]
        budget = nops
        for name in names:
            cmdtok = hx(name.encode())
            yield "parse %s %s" % (name, cmdtok)
            # exhaustive short vectors
            for L in range(1, maxlen):
                for tail in itertools.product(alpha, repeat=L):
                    if budget <= 0:
                        break
                    budget -= 1
                    yield "parse %s %s %s" % (name, cmdtok, " ".join(hx(t) for t in tail))
            orc.hit("exhaustive_short")
            # random long vectors: 3 plausible positional arguments, then an option tail
            for _ in range(60 if self.tier == "quick" else 400):
                n = r.randint(4, 10)
                toks = [r.choice(POS) for _ in range(3)]
                while len(toks) < n:
                    kw = r.choice(KW)
                    toks.append(kw)
                    if r.random() < 0.7:
                        toks.append(r.choice(VAL))
                    else:
                        orc.hit("option_without_value")
                    if kw == b"bogus":
                        orc.hit("unknown_option")
                toks = toks[:n + 1]
                yield "parse %s %s %s" % (name, cmdtok, " ".join(hx(t) for t in toks))
            orc.hit("random_long")
