"""Stream `cchurn` (C20, cluster level): a bounded key set is overwritten, deleted and left to expire through the
DMap API of a 1-3 member cluster with small storage tables (replica count 1-2, so that backup fragments take the
same churn through the replica write path); the compaction worker is run at intervals and at the end (it returns
when every fragment's Compaction has answered done); then the slab statistics of every PRIMARY and every BACKUP
fragment are read.

Oracle (the theorems of C20 are about one store; this stream ties "the worker brings every store of the member to
done" to the code):
  * after a compaction run, in every fragment - primary or backup - no table but the one being written holds 40 % garbage
    or more, hence  garbage < 0.4 * tableSize * (tables - 1) + tableSize;
  * bytes in use + garbage never exceed what is allocated, and the entry count equals the keys present;
  * allocated <= tables * tableSize (no table is larger than configured)."""
from streams.cluster import T0, hx

NO_MODEL = True
HEADER = 3
REQUIRED_SHAPES = ["backup_fragment_checked", "primary_fragment_checked", "many_tables_before_compaction", "expired_by_ttl", "garbage_below_threshold", "destroy_during_compaction", "idle_tables_given_back", "fragment_without_garbage", "entry_with_trailing_bytes"]


class Oracle:
    def __init__(self):
        self.shapes = {}
        self.cfg = {}
        self.compacted = False
        self.peak = 0

    def hit(self, s):
        self.shapes[s] = self.shapes.get(s, 0) + 1

    def observe(self, op, reply):
        f = op.split()
        name, a = f[0], f[1:]
        if reply.startswith("err:") or reply.startswith("other:") or reply.split()[0] in ("bad-op", "no-cluster", "down", "neterr", "hang"):
            return "unexpected reply %r to %s" % (reply[:160], op[:100])
        if name == "c.new":
            self.cfg = dict(kv.split("=") for kv in a if "=" in kv)
            self.compacted, self.peak = False, 0
            return None
        if name == "c.rawerr":
            self.hit("entry_with_trailing_bytes")
            return None if reply == "syntax" or reply.startswith("other:") and "malformed" in reply else \
                "DM.PUTENTRY with an encoded entry followed by extra bytes was answered %s (expected: refused as malformed)" % reply[:80]
        if name == "c.inter":
            self.compacted = False
            if reply.endswith("inner=-"):
                return None          # no fragment left to compact: the point was not reached
            self.hit("destroy_during_compaction")
            return None if reply.startswith("ok inner=ran:ok") else "compaction worker vs Destroy: %s" % reply[:120]
        if name in ("c.put", "c.del", "bg.evict"):
            self.compacted = False
            if name == "c.put" and "PX" in a:
                self.hit("expired_by_ttl")
            return None
        if name == "bg.compact":
            self.compacted = True
            return None
        if name == "wb.slab":
            T = int(self.cfg.get("tsize", 1 << 20))
            for part in reply.split():
                m, rest = part.split(":", 1)
                for side in rest.split(";"):
                    kind, frs = side.split("=")
                    if frs == "-":
                        continue
                    for fr in frs.split(","):
                        pid, alloc, inuse, garbage, tables, length = (int(x) for x in fr.split(":"))
                        self.peak = max(self.peak, tables)
                        if tables >= 4 and not self.compacted:
                            self.hit("many_tables_before_compaction")
                        if inuse + garbage > alloc:
                            return "%s %s partition %d: in use %d + garbage %d exceed the %d bytes allocated" % (m, kind, pid, inuse, garbage, alloc)
                        if alloc > tables * T:
                            return "%s %s partition %d: %d bytes allocated in %d tables of %d" % (m, kind, pid, alloc, tables, T)
                        if self.compacted and garbage == 0 and tables >= 2:
                            self.hit("fragment_without_garbage")
                        if self.compacted and len(a) > 1 and a[1] == "swept":
                            self.hit("idle_tables_given_back")
                            if tables > length + 2:
                                return ("after the idle-table timeout and a compaction pass the %s fragment of partition %d on %s still has %d tables "
                                        "(%d bytes) for %d present keys: emptied tables are not given back" % (
                                            "BACKUP" if kind == "B" else "PRIMARY", pid, m, tables, alloc, length))
                        if self.compacted:
                            self.hit("backup_fragment_checked" if kind == "B" else "primary_fragment_checked")
                            bound = (2 * T * max(0, tables - 1)) // 5 + T
                            if garbage >= bound:
                                return ("after the compaction worker finished, %s %s fragment of partition %d holds %d bytes of garbage in %d tables of %d bytes "
                                        "(%d in use): some table other than the one being written is at or above the 40 %% threshold" % (
                                            m, "BACKUP" if kind == "B" else "PRIMARY", pid, garbage, tables, T, inuse))
                            self.hit("garbage_below_threshold")
            return None
        return None


class Gen:
    def __init__(self, rng, tier="quick"):
        self.rng = rng

    def episode(self, orc, nops):
        r = self.rng
        n = r.choice([1, 2, 2, 3])
        R = r.choice([1, 2, 2]) if n > 1 else 1
        T = r.choice([512, 1024])
        yield "watchdog 120s"
        now = T0
        yield "clock %d" % now
        # recycled tables are given back 300 ms after they were emptied
        yield "c.new n=%d r=%d w=1 rq=1 rr=0 parts=%d tsize=%d tidle_ms=300" % (n, R, r.choice([3, 5]), T)     # PartitionCount < members: finding F34 (C13)
        keys = [hx(b"c%d" % i) for i in range(r.choice([3, 6]))]
        ver = 0
        for i in range(nops or 160):
            k = r.choice(keys)
            x = r.random()
            ver += 1
            now += 1_000_000
            yield "clock %d" % now
            if x < 0.8:
                val = hx(b"v%d" % ver + b"q" * r.choice([20, 60, T // 5]))
                opts = " PX %d" % r.choice([5, 50]) if r.random() < 0.1 else ""
                yield "c.put %s %d dm %s %s%s" % (r.choice(["emb", "emb", "cli", "raw"]), r.randrange(n), k, val, opts)
            elif x < 0.9:
                yield "c.del emb %d dm %s" % (r.randrange(n), k)
            elif x < 0.95:
                yield "bg.evict"
            else:
                yield "wb.slab dm"
                yield "bg.compact"
                yield "wb.slab dm"
        yield "wb.slab dm"
        now += 100_000_000
        yield "clock %d" % now
        yield "bg.evict"
        yield "bg.compact"
        yield "wb.slab dm"
        # most keys are deleted, the worker empties and recycles their tables (no garbage is left anywhere); after the idle
        # timeout another pass gives the recycled tables back: at most one table per present key, the one being written and one more
        for k in keys[1:]:
            yield "c.del emb %d dm %s" % (r.randrange(n), k)
        yield "bg.compact"
        now += 1_000_000_000
        yield "clock %d" % now
        yield "bg.compact"
        yield "wb.slab dm swept"
        # a burst that is deleted completely, then a few large fresh entries that roll every fragment over to a new table:
        # the worker reclaims every older table and NO garbage is left anywhere; the emptied tables must still be given
        # back once the idle timeout has passed (a fragment without garbage is not "clean": it may hold idle tables)
        zk = [hx(b"z%02d" % i) for i in range(90)]
        for k in zk:
            yield "c.put emb %d dz %s %s" % (r.randrange(n), k, hx(b"b" * 100))
        for k in zk:
            yield "c.del emb %d dz %s" % (r.randrange(n), k)
        for i in range(10):
            yield "c.put emb %d dz %s %s" % (r.randrange(n), hx(b"y%d" % i), hx(b"f" * (T // 2 + 40)))
        yield "bg.compact"
        yield "wb.slab dz"
        now += 1_000_000_000
        yield "clock %d" % now
        yield "bg.compact"
        yield "wb.slab dz swept"
        # a replica write whose payload is an encoded entry FOLLOWED BY EXTRA BYTES is refused (a table that booked more bytes
        # for an entry than its header says could never be emptied again, and the worker would never finish with it); either
        # way the worker comes back and the tables stay within their bounds
        import struct
        for i in range(4):
            kb = b"pe%d" % i
            enc = bytes([len(kb)]) + kb + struct.pack(">QQQI", 0, now + i, now, 40) + b"e" * 40 + b"\x00" * r.choice([1, 7, 64])
            yield "c.rawerr %d %s" % (r.randrange(n), " ".join(hx(t) for t in [b"dm.putentry", b"dm", kb, enc]))
        for i in range(40):
            ver += 1
            yield "c.put emb %d dm %s %s" % (r.randrange(n), hx(b"pe%d" % (i % 4)), hx(b"o%d" % ver + b"q" * 90))
        for i in range(4):
            yield "c.del emb %d dm %s" % (r.randrange(n), hx(b"pe%d" % i))
        yield "watchdog 20s"
        yield "bg.compact"
        yield "wb.slab dm"
        if getattr(self, "ep", 0) % 2 == 0:
            # the DMap is destroyed while the worker is about to compact one of its fragments (between picking the
            # fragment and locking it): the worker must come back, and compaction must go on afterwards
            yield "watchdog 20s"
            yield "c.inter compact.fragment bg.compact -- c.destroy emb %d dm" % r.randrange(n)
            for i in range(12):
                ver += 1
                yield "c.put emb %d dm %s %s" % (r.randrange(n), r.choice(keys), hx(b"a%d" % ver + b"q" * 60))
            yield "bg.compact"
            yield "wb.slab dm"
