"""Stream `rrfail` (C06): read-repair when one backup owner cannot be repaired.  Three members, ReplicaCount 3,
read-repair on.  The owner holds the newest copy of a key, both backup owners a stale one (or none).  A Get is run
on the owner; at the yield point between gathering the versions and repairing - every holder has answered - one backup
owner becomes unreachable (its listener is closed), so the repair write to it fails.  Afterwards every copy is read
white-box.

Oracle: the read returns the newest copy; the owner's copy and the copy of every backup owner that is still REACHABLE
carry the winner's timestamp afterwards, whichever position the unreachable one has in the list; the unreachable
member's copy is unchanged."""
from streams.cluster import T0, hx
from streams.repair import parse_wb

NO_MODEL = True
HEADER = 3
REQUIRED_SHAPES = ["owner_without_fragment_repaired", "first_backup_unrepairable", "second_backup_unrepairable", "reachable_backup_repaired", "stale_copy", "missing_copy"]


class Oracle:
    def __init__(self):
        self.shapes = {}
        self.route = {}
        self.pending = None

    def hit(self, s):
        self.shapes[s] = self.shapes.get(s, 0) + 1

    def observe(self, op, reply):
        f = op.split()
        name, a = f[0], f[1:]
        if reply.startswith("err:") or reply.startswith("other:") or reply.split()[0] in ("bad-op", "no-cluster", "hang"):
            return "unexpected reply %r to %s" % (reply[:160], op[:100])
        if name == "c.own":
            p, b = reply.split("pick=")[1].split()[0].split("/")
            self.route[a[1]] = (int(p.split(",")[-1]), [int(x) for x in b.split(",")] if b != "-" else [])
            return None
        if name == "c.inter":
            # c.inter get.before-repair c.getx emb <owner> dm <key> -- c.unreach <m>
            key, victim = a[5], int(a[-1])
            r_outer, st = reply.split(" inner=")
            if st == "-":
                self.hit("repair_step_not_reached")        # nothing to repair (e.g. a shrunk sequence without the copies)
                self.pending = None
                return None
            owner, baks = self.route[key]
            self.hit("first_backup_unrepairable" if baks and victim == baks[0] else "second_backup_unrepairable")
            self.pending = (key, owner, baks, victim, r_outer)
            return None
        if name == "c.getx":
            # the owner-without-fragment scenario: the read returns the newest copy, then every holder carries it
            key = a[3]
            owner, baks = self.route[key]
            self.pending_plain = (a[2], key, owner, baks, reply)
            return None
        if name == "wb" and getattr(self, "pending_plain", None) and self.pending_plain[1] == a[1] and self.pending_plain[0] == a[0]:
            dm, key, owner, baks, rget = self.pending_plain
            self.pending_plain = None
            seen = parse_wb(reply)
            r = rget.split()
            if len(r) != 3:
                return "a read with the only copies on the backup owners returned %s" % rget[:80]
            top = int(r[2][3:])
            self.hit("owner_without_fragment_repaired")
            for h in [(owner, "P")] + [(b, "B") for b in baks]:
                c = seen.get(h)
                if c is None or c[2] != top:
                    return ("after a read with read-repair m%d (%s) holds %s, the newest version has timestamp %d "
                            "(the owner had no fragment of the DMap for this partition before the read)" % (h[0], "owner" if h[1] == "P" else "backup owner", c, top))
            return None
        if name == "wb" and self.pending and self.pending[0] == a[1]:
            key, owner, baks, victim, r_outer = self.pending
            self.pending = None
            seen = parse_wb(reply)
            r = r_outer.split("_")
            if len(r) != 3:
                return "the read returned %s" % r_outer[:80]
            top = int(r[2][3:])
            oc = seen.get((owner, "P"))
            if oc is None or oc[2] != top:
                return "the read returned timestamp %d, the owner holds %s" % (top, oc)
            for b in baks:
                c = seen.get((b, "B"))
                if b == victim:
                    continue
                self.hit("reachable_backup_repaired")
                if c is None or c[2] != top:
                    return ("after a read with read-repair the reachable backup owner m%d holds %s, the newest version has timestamp %d "
                            "(the repair of backup owner m%d, listed %s it, failed)" % (b, c, top, victim, "before" if baks.index(victim) < baks.index(b) else "after"))
            return None
        return None


class Gen:
    def __init__(self, rng, tier="quick"):
        self.rng = rng

    def episode(self, orc, nops):
        r = self.rng
        yield "watchdog 60s"
        yield "clock %d" % T0
        yield "c.new n=3 r=3 w=1 rq=1 rr=1 parts=%d tsize=4096" % r.choice([3, 7])
        if getattr(self, "ep", 0) % 2 == 1:
            # the owner has no fragment at all for this DMap and partition (nothing was ever written through it): the only
            # copies are on the backup owners - the state of a freshly promoted owner.  One read repairs the owner and the
            # stale backup owner.
            for i in range(3):
                dm = "rz%d" % i
                key = hx(b"k%d" % r.randrange(40))
                rep = yield "c.own %s %s" % (dm, key)
                p, b = rep.split("pick=")[1].split()[0].split("/")
                owner, baks = int(p.split(",")[-1]), [int(x) for x in b.split(",")]
                yield "wb.put %d B %s %s %s 0 %d" % (baks[0], dm, key, hx(b"newest"), T0 + 2000)
                if r.random() < 0.7:
                    yield "wb.put %d B %s %s %s 0 %d" % (baks[1], dm, key, hx(b"stale"), T0 + 1000)
                yield "wb %s %s" % (dm, key)
                yield "c.getx %s %d %s %s" % (r.choice(["emb", "emb", "cli", "raw"]), r.choice([owner, owner, baks[0]]), dm, key)
                yield "wb %s %s" % (dm, key)
            return
        key = hx(b"k%d" % r.randrange(40))
        rep = yield "c.own dm %s" % key
        p, b = rep.split("pick=")[1].split()[0].split("/")
        owner, baks = int(p.split(",")[-1]), [int(x) for x in b.split(",")]
        yield "c.put emb %d dm %s %s" % (r.randrange(3), key, hx(b"first"))
        # the owner gets a newer copy behind the system's back; the backups keep the old one or lose it
        yield "wb.put %d P dm %s %s 0 %d" % (owner, key, hx(b"newest"), T0 + 10**9)
        for bk in baks:
            if r.random() < 0.3:
                yield "wb.del %d B dm %s" % (bk, key)
                orc.hit("missing_copy")
            else:
                orc.hit("stale_copy")
        yield "wb dm %s" % key
        victim = r.choice(baks)
        yield "c.inter get.before-repair c.getx emb %d dm %s -- c.unreach %d" % (owner, key, victim)
        yield "wb dm %s" % key
