"""Stream `repair` (C06): copies of a key planted behind the system's back on the owner and the backup
owners with arbitrary timestamps (ties, missing copies, expired copies), fragment hand-overs delivered
through the real DMAP.MOVEFRAGMENT handler in any order and repeatedly, reads with read-repair on/off
through every entry path, white-box copies read after every step.

Oracle (independent of the Lean model, on the implementation's replies only):
  * a read returns a copy whose timestamp is the maximum over the live copies of the owner, of EVERY previous owner
    still listed for the partition (listed behind the system's back: wb.owners; a previous owner in the middle of
    the list may hold no copy) and - when those are fewer than the read quorum or read-repair is on - of the backup owners;
  * after a hand-over the receiver's copy of each delivered key carries max(previous, delivered) and is
    one of those records;
  * after a successful read with read-repair on, the owner and every backup owner hold the winner's
    timestamp; with read-repair off no copy changes."""
from streams.cluster import T0, hx

HEADER = 3
REQUIRED_SHAPES = ["repair_owner_from_previous_owner_single_copy", "previous_owner_newest", "previous_owner_gap", "stale_owner_newer_backup", "tie", "missing_copy", "expired_copy", "repair_fixed_owner", "repair_fixed_backup",
                   "merge_older_ignored", "merge_newer_wins", "merge_redelivered", "read_no_repair"]


def parse_wb(reply):
    out = {}
    for part in reply.split():
        m, rest = part.split(":", 1)
        if rest == "down":
            continue
        p, b = rest.split(",")
        for kind, s in (("P", p[2:]), ("B", b[2:])):
            if s != "-":
                v, ttl, ts = s.split("/")
                out[(int(m[1:]), kind)] = (v, int(ttl), int(ts))
    return out


class Oracle:
    def __init__(self):
        self.shapes = {}
        self.cfg = {}
        self.now = T0
        self.route = {}
        self.copies = {}       # key -> {(member, kind): (val, ttl, ts)}   as last seen by `wb`
        self.pending = None    # check to run on the next `wb` reply
        self.delivered = {}    # (member, kind, key) -> set of records delivered so far

    def hit(self, s):
        self.shapes[s] = self.shapes.get(s, 0) + 1

    def live(self, c):
        return c is not None and not (c[1] != 0 and self.now // 1_000_000 >= c[1])

    def getx_prev(self, key, owner, prevs, baks, cs, reply):
        """a read while previous owners are listed: the owner and every previous owner are asked; the backup owners
        only when that gave fewer versions than the read quorum.  Read-repair (if on) may rewrite the owner and the
        backup owners: their copies are compared with the winner afterwards (previous owners are not repaired)."""
        self.pending = None
        RQ = int(self.cfg.get("rq", 1))
        first = [cs.get(h) for h in [(owner, "P")] + prevs if self.live(cs.get(h))]
        bl = [cs.get((b, "B")) for b in baks if self.live(cs.get((b, "B")))]
        lives = first + (bl if len(first) < RQ else [])
        if not first and not bl:
            return None if reply == "nf" else "read with no live copy returned %s" % reply[:80]
        if len(lives) < RQ:
            return None if reply in ("rq", "nf") else "read with %d live copies, RQ=%d returned %s" % (len(lives), RQ, reply[:80])
        if not lives:
            return None if reply == "nf" else "read with no live copy on the owners returned %s" % reply[:80]
        top = max(c[2] for c in lives)
        r = reply.split()
        if len(r) != 3:
            return "read with live copies %s (previous owners %s) returned %s" % (lives, [p[0] for p in prevs], reply[:80])
        got = (r[0], int(r[1][4:]), int(r[2][3:]))
        pl = [cs.get(h) for h in prevs]
        if any(self.live(c) and c[2] == top for c in pl) and not (self.live(cs.get((owner, "P"))) and cs[(owner, "P")][2] == top):
            self.hit("previous_owner_newest")
            # ... and is an older previous owner the holder, behind one that has no copy?
            idx = [i for i, c in enumerate(pl) if self.live(c) and c[2] == top]
            if any(not self.live(pl[j]) for i in idx for j in range(i + 1, len(pl))):
                self.hit("previous_owner_gap")
        if got[2] < top and len(first) >= RQ:
            return "read returned the copy with timestamp %d although a live copy with timestamp %d exists on the owner or a previous owner (copies %s, owners %s)" % (
                got[2], top, sorted(cs.items()), [p[0] for p in prevs] + [owner])
        if self.cfg.get("rr", "0") == "1" and got[2] == top and any(c == got for c in lives):
            # read-repair: the owner's OWN copy is brought up to the winner, wherever the winner was found - on a previous
            # owner too, and with a single copy per key (ReplicaCount 1) as well
            self.hit("repair_owner_from_previous_owner")
            if self.cfg.get("r") == "1" and cs.get((owner, "P")) != got:
                self.hit("repair_owner_from_previous_owner_single_copy")
            self.pending = ("repaired", key, got, dict(cs), [(owner, "P")] + [(b, "B") for b in baks])
        return None

    def observe(self, op, reply):
        f = op.split()
        name, a = f[0], f[1:]
        if reply.startswith("err:") or reply.startswith("other:") or reply in ("bad-op", "no-cluster", "down", "neterr"):
            return "unexpected reply %r to %s" % (reply[:160], op[:100])
        if name == "clock":
            self.now = int(a[0])
            return None
        if name == "c.new":
            self.cfg = dict(kv.split("=") for kv in a if "=" in kv)
            self.copies, self.route, self.delivered, self.pending = {}, {}, {}, None
            return None
        if name == "c.own":
            p, b = reply.split("pick=")[1].split()[0].split("/")
            self.route[a[1]] = ([int(x) for x in p.split(",")], [int(x) for x in b.split(",")] if b != "-" else [])
            return None
        if name == "wb.put":
            self.copies.setdefault(a[3], {})[(int(a[0]), a[1])] = (a[4], int(a[5]), int(a[6]))
            return None if reply == "ok" else "planting a copy failed: " + reply
        if name == "wb.del":
            self.copies.setdefault(a[3], {}).pop((int(a[0]), a[1]), None)
            return None
        if name == "wb.mergex":
            return None if reply == "syntax" else "a fragment for a partition the member does not own was accepted: " + reply
        if name == "wb.merge":
            if reply != "ok":
                return "hand-over refused: " + reply
            m, kind = int(a[0]), a[1]
            checks = []
            for e in a[3:]:
                k, v, ttl, ts = e.split(":")
                rec = (v, int(ttl), int(ts))
                cur = self.copies.get(k, {}).get((m, kind))
                seen = self.delivered.setdefault((m, kind, k), set())
                if rec in seen:
                    self.hit("merge_redelivered")
                seen.add(rec)
                if cur is not None and rec[2] < cur[2]:
                    self.hit("merge_older_ignored")
                if cur is not None and rec[2] > cur[2]:
                    self.hit("merge_newer_wins")
                if cur is not None and rec[2] == cur[2]:
                    self.hit("tie")
                checks.append((k, m, kind, cur, rec))
            self.pending = ("merge", checks)
            return None
        if name == "c.getx":
            key = a[3]
            prim, baks = self.route[key]
            owner = prim[-1]
            cs = self.copies.get(key, {})
            prevs = [(m, "P") for m in prim[:-1]]
            holders = [(owner, "P")] + [(b, "B") for b in baks]
            if prevs:
                return self.getx_prev(key, owner, prevs, baks, cs, reply)
            lives = [cs.get(h) for h in holders if self.live(cs.get(h))]
            if any(cs.get(h) is None for h in holders):
                self.hit("missing_copy")
            if any(cs.get(h) is not None and not self.live(cs.get(h)) for h in holders):
                self.hit("expired_copy")
            RQ = int(self.cfg.get("rq", 1))
            rr = self.cfg.get("rr", "0") == "1"
            if not lives:
                self.pending = ("unchanged", key, dict(cs))
                return None if reply == "nf" else "read with no live copy returned %s" % reply[:80]
            if len(lives) < RQ:
                self.pending = ("unchanged", key, dict(cs))
                return None if reply == "rq" else "read with %d live copies, RQ=%d returned %s" % (len(lives), RQ, reply[:80])
            top = max(c[2] for c in lives)
            winners = [c for c in lives if c[2] == top]
            if len(set(c[2] for c in lives)) < len(lives):
                self.hit("tie")
            oc = cs.get((owner, "P"))
            if any(self.live(cs.get((b, "B"))) and (not self.live(oc) or cs[(b, "B")][2] > oc[2]) for b in baks):
                self.hit("stale_owner_newer_backup")
            r = reply.split()
            if len(r) != 3:
                return "read with live copies %s returned %s" % (lives, reply[:80])
            got = (r[0], int(r[1][4:]), int(r[2][3:]))
            if got[2] != top:
                return "read returned the copy with timestamp %d although a live copy with timestamp %d exists (copies %s)" % (got[2], top, sorted(cs.items()))
            if got not in winners:
                return "read returned %s which is not one of the newest copies %s" % (got, winners)
            if rr:
                self.pending = ("repaired", key, got, dict(cs), holders)
            else:
                self.hit("read_no_repair")
                self.pending = ("unchanged", key, dict(cs))
            return None
        if name == "wb":
            key = a[1]
            seen = parse_wb(reply)
            pend, self.pending = self.pending, None
            err = None
            if pend is not None:
                if pend[0] == "unchanged" and pend[1] == key:
                    if seen != pend[2]:
                        err = "a read that must not repair changed the copies: before %s after %s" % (sorted(pend[2].items()), sorted(seen.items()))
                elif pend[0] == "repaired" and pend[1] == key:
                    _, _, got, before, holders = pend
                    for h in holders:
                        c = seen.get(h)
                        if c is None or c[2] != got[2]:
                            err = "after a read with read-repair member %d (%s) holds %s, the newest version has timestamp %d" % (h[0], h[1], c, got[2])
                            break
                        b = before.get(h)
                        if not self.live(b) or b[2] != got[2]:     # an expired entry is no copy: it is repaired too
                            self.hit("repair_fixed_owner" if h[1] == "P" else "repair_fixed_backup")
                            if c != got:
                                err = "read-repair stored %s on member %d, the winner is %s" % (c, h[0], got)
                                break
                        elif c != b:
                            err = "read-repair rewrote a copy that already carried the newest timestamp: %s -> %s" % (b, c)
                            break
                elif pend[0] == "merge":
                    for (k, m, kind, cur, rec) in pend[1]:
                        if k != key:
                            continue
                        c = seen.get((m, kind))
                        want = rec[2] if cur is None else max(cur[2], rec[2])
                        if c is None or c[2] != want or c not in (cur, rec):
                            err = "after the hand-over of %s onto %s member %d holds %s" % (rec, cur, m, c)
                            break
            self.copies[key] = seen
            return err
        return None


class Gen:
    def __init__(self, rng, tier="quick"):
        self.rng = rng

    def episode(self, orc, nops):
        r = self.rng
        R = r.choice([1, 2, 3, 3])
        RQ = r.randint(1, R)
        rr = r.choice([0, 1, 1])
        # every fifth episode: one copy per key, read-repair on, previous owners listed half of the time
        forced = getattr(self, "ep", 0) % 5 == 2
        if forced:
            R, RQ, rr = 1, 1, 1
        n = 3
        parts = r.choice([3, 3, 7])     # PartitionCount < members makes consistent.Add panic (finding F34, C13)
        tsize = r.choice([256, 4096])
        yield "watchdog 60s"
        yield "clock %d" % T0
        yield "c.new n=%d r=%d w=1 rq=%d rr=%d parts=%d tsize=%d" % (n, R, RQ, rr, parts, tsize)
        keys = [hx(b"k%d" % i) for i in r.sample(range(40), r.randint(2, 4))]
        routes = {}
        for k in keys:
            rep = yield "c.own dm %s" % k
            p, b = rep.split("pick=")[1].split()[0].split("/")
            routes[k] = (int(p.split(",")[-1]), [int(x) for x in b.split(",")] if b != "-" else [])
        nowms = T0 // 1_000_000
        packs = []

        def rec(k):
            ts = T0 + r.choice([-3, -2, -1, 0, 1, 2, 3]) * 1000
            ttl = r.choice([0, 0, 0, nowms + 5000, nowms - 5000])
            return "%s:%s:%d:%d" % (k, hx(b"v%d" % r.randrange(1000)) if r.random() > 0.1 else hx(b""), ttl, ts)      # the empty value is a value

        for _ in range(nops or 40):
            k = r.choice(keys)
            owner, baks = routes[k]
            if r.random() < (0.5 if forced else 0.12):
                # previous owners listed for the partition (oldest first), copies planted on them - the newest one
                # often on the OLDEST previous owner while the one after it holds none -, reads through every path
                others = [m for m in range(n) if m != owner]
                r.shuffle(others)
                prev = others[:r.choice([1, 2, 2])]
                yield "wb.owners dm %s %s" % (k, ",".join(str(m) for m in prev))
                yield "c.own dm %s" % k
                base = T0 + r.choice([-3, 0, 3]) * 1000
                plan = r.choice(["oldest-newest-gap", "oldest-newest-gap", "random"])
                for i, m in enumerate(prev):
                    if plan == "random":
                        if r.random() < 0.7:
                            _, v, ttl, ts = rec(k).split(":")
                            yield "wb.put %d P dm %s %s %s %s" % (m, k, v, ttl, ts)
                        else:
                            yield "wb.del %d P dm %s" % (m, k)
                    elif i == 0:
                        yield "wb.put %d P dm %s %s 0 %d" % (m, k, hx(b"old%d" % r.randrange(100)), base + 5000)
                    else:
                        yield "wb.del %d P dm %s" % (m, k)
                if r.random() < 0.6:
                    yield "wb.put %d P dm %s %s 0 %d" % (owner, k, hx(b"cur%d" % r.randrange(100)), base + r.choice([-1000, 1000]))
                else:
                    yield "wb.del %d P dm %s" % (owner, k)
                yield "wb dm %s" % k
                for _ in range(r.randint(1, 2)):
                    yield "c.getx %s %d dm %s" % (r.choice(["emb", "emb", "cli", "raw"]), r.randrange(n), k)
                    yield "wb dm %s" % k
                # back to the stable list; the copies planted on the former owners are removed
                for m in prev:
                    yield "wb.del %d P dm %s" % (m, k)
                yield "wb.owners dm %s -" % k
                yield "c.own dm %s" % k
                yield "wb dm %s" % k
                continue
            holders = [(owner, "P")] + [(b, "B") for b in baks]
            x = r.random()
            if x < 0.35:
                m, kind = r.choice(holders)
                _, v, ttl, ts = rec(k).split(":")
                yield "wb.put %d %s dm %s %s %s %s" % (m, kind, k, v, ttl, ts)
            elif x < 0.45:
                m, kind = r.choice(holders)
                yield "wb.del %d %s dm %s" % (m, kind, k)
            elif x < 0.70:
                m, kind = r.choice(holders)
                if packs and r.random() < 0.4:
                    m, kind, es = r.choice(packs)          # the same table delivered once more
                else:
                    same = [q for q in keys if (routes[q][0], "P") == (m, kind) or (kind == "B" and m in routes[q][1])]
                    es = [rec(q) for q in r.sample(same, r.randint(1, len(same)))]
                    packs.append((m, kind, es))
                yield "wb.merge %d %s dm %s" % (m, kind, " ".join(es))
                for q in sorted(set(e.split(":")[0] for e in es)):
                    yield "wb dm %s" % q
                continue
            elif x < 0.74:
                others = [m for m in range(n) if m != owner]
                yield "wb.mergex %d P dm %s" % (r.choice(others), rec(k))
                continue
            elif x < 0.78:
                yield "c.put emb %d dm %s %s" % (r.randrange(n), k, hx(b"w%d" % r.randrange(1000)))
            else:
                yield "wb dm %s" % k
                path = r.choice(["emb", "emb", "cli", "raw"])
                yield "c.getx %s %d dm %s" % (path, r.randrange(n), k)
            yield "wb dm %s" % k
