"""Stream `alias` (C18): values handed out by the store are kept, the store is churned (overwrites,
deletes, compaction that recycles and re-uses tables, table transfer), then the kept values are looked
at again and scribbled on; buffers passed to Put are reused immediately."""
from streams import kv
from streams.kv import hx, keyof

HEADER = 4
REQUIRED_SHAPES = ["held_checked_after_recycle", "poked", "putbuf", "hold_older_table"]


class Oracle(kv.Oracle):
    def __init__(self):
        super().__init__()
        self.nheld = 0

    def observe(self, op, reply):
        f = op.split()
        name = f[0]
        if name == "hold":
            msg = super().observe("get " + " ".join(f[1:]), reply)
            if reply != "nf" and not msg:
                self.nheld += 1
            return msg
        if name == "holdpage":
            r = reply.split()
            self.nheld += max(0, len(r) - 1)
            return super().observe("scan %s %s %s *" % (f[1], f[2], f[3]), reply)
        if name == "heldcheck":
            if reply.startswith("changed"):
                return "a value handed out earlier changed afterwards: " + reply[:200]
            return None
        if name == "poke":
            if reply == "poked":
                self.hit("poked")
            return None
        if name == "putbuf":
            self.hit("putbuf")
            return super().observe("put " + " ".join(f[1:]), reply)
        return super().observe(op, reply)


class Gen(kv.Gen):
    def start(self):
        r = self.rng
        self.T = r.choice([256, 512, 1024])
        self.nk = r.choice([3, 5, 8])
        self.idle = 10**9
        self.longkeys = False
        self.pinned = False
        return ["watchdog 4s", "clock %d" % self.now, "kv.new a %d %d" % (self.T, self.idle), "kv.new b %d %d" % (self.T, self.idle)]

    def value(self, kl):
        self.ver += 1
        n = self.rng.choice([0, 1, 4, 16, self.T // 6, self.T // 3])       # 0: an empty value is a snapshot as well
        n = max(0, min(n, self.T - 40 - kl))
        return bytes([self.ver % 251 + 1]) * n

    def put(self, hk, buf=False):
        k = keyof(hk)
        v = self.value(len(k))
        self.tsctr += 1
        return "%s a %d %s %s 0 %d" % ("putbuf" if buf else "put", hk, hx(k), hx(v), self.tsctr)

    def episode(self, orc, nops):
        r = self.rng
        self.orc_hit = orc.hit
        for op in self.start():
            yield op
        rounds = max(2, nops // 60)
        for _ in range(rounds):
            # fill so that several tables exist, then take values from old and new tables
            for hk in range(self.nk):
                yield self.put(hk, buf=r.random() < 0.5)
            for _ in range(r.randint(0, 2 * self.nk)):
                yield self.put(r.randrange(self.nk), buf=r.random() < 0.3)
            rep = yield "stats a"
            if rep.split()[4:] and int(rep.split()[4]) > 1:
                orc.hit("hold_older_table")
            if r.random() < 0.6:
                # an iteration over the store that its callback stops early (the LRU sampling does that) - before values are taken
                yield "rangestop a %d" % r.choice([1, 2, 5])
                orc.hit("range_stopped_early_before_get")
            for hk in range(self.nk):
                if r.random() < 0.8:
                    yield "hold a %d" % hk
            if r.random() < 0.5:
                rep = yield "holdpage a 0 %d" % r.choice([1, 2, 100])
                for _ in range(50):
                    if rep.split()[0] in ("0", "hang", "dead") or rep.startswith("panic"):
                        break
                    rep = yield "holdpage a @ %d" % r.choice([1, 2, 100])
            # churn: overwrite and delete everything, compact to completion, let recycled tables be
            # re-used by further writes, transfer a table away
            for _ in range(r.randint(1, 3)):
                for hk in range(self.nk):
                    yield self.put(hk) if r.random() < 0.7 else "del a %d" % hk
                for _ in range(100):
                    rep = yield "compact a"
                    if not rep.startswith("more"):
                        break
                if r.random() < 0.3:
                    yield "xfer a b"
                if r.random() < 0.3:
                    self.now += self.idle + 10**6
                    yield "clock %d" % self.now
                    yield "compact a"
            orc.hit("held_checked_after_recycle")
            yield "heldcheck"
            # scribble over some of the kept values; the store must not notice
            for _ in range(3):
                if orc.nheld:
                    yield "poke %d" % r.randrange(orc.nheld)
            yield "heldcheck"
            for hk in range(self.nk):
                yield "get a %d" % hk
            yield "dump a"
        yield "range a"
