"""Stream `kv`: storage-engine operation sequences (C11, C12, C18, C20).

Generator (structured, state-aware), property oracle (an independent reference map, run on the
implementation's replies only) and coverage shapes.  The model comparison is done by the runner."""
import random

T0 = 1_700_000_000_000_000_000  # virtual clock start, unix ns


def hx(b):
    return b.hex() if b else "-"


def keyof(hk):
    # deterministic key per hkey (as hkey = hash(dmap+key)); two prefixes for MATCH scans
    return (b"a" if hk % 2 == 0 else b"b") + str(hk).encode()


class Oracle:
    """Reference semantics: per store a dict hkey -> [key, val, ttl, ts]."""

    def __init__(self):
        self.ref = {}
        self.ts = {}
        self.walk = {}
        self.more = {}
        self.shapes = {}

    def hit(self, s):
        self.shapes[s] = self.shapes.get(s, 0) + 1

    def check_dump(self, sid, reply):
        return check_dump_accounting(reply)

    def observe(self, op, reply):
        f = op.split()
        name, a = f[0], f[1:]
        if reply.startswith("err:") or reply == "bad-op":
            return "unexpected reply %r" % reply
        if name in ("kv.new", "kv.empty"):
            self.ref[a[0]] = {}
            self.ts[a[0]] = int(a[1])
            self.walk.pop(a[0], None)
            return None
        if name in ("clock", "watchdog"):
            return None
        if name == "dump":
            return self.check_dump(a[0], reply)
        sid = a[0]
        ref = self.ref[sid]
        T = self.ts[sid]
        if name not in ("scan", "stats", "get", "getraw", "getttl", "getla", "getkey", "check", "range", "rangehkey"):
            w = self.walk.get(sid)
            if w is not None:
                w["mut"] = True
        if name != "compact":
            self.more[sid] = 0
        if name in ("put", "putraw"):
            hk = int(a[1])
            key, val = a[2], a[3]
            kl = 0 if key == "-" else len(key) // 2
            vl = 0 if val == "-" else len(val) // 2
            size = 29 + kl + vl
            if size > T:
                exp = ("toolarge",)
            elif size == T:
                exp = ("toolarge", "ok")        # an entry of exactly the table size: either, but an answer
                self.hit("size_eq_table")
            elif name == "put" and kl >= 256:
                exp = ("keytoolarge",)
            else:
                exp = ("ok",)
            if reply not in exp:
                return "%s size=%d tableSize=%d: reply %s, expected %s" % (name, size, T, reply, "/".join(exp))
            if reply == "ok":
                if hk in ref:
                    self.hit("overwrite")
                    w = self.walk.get(sid)
                    if w is not None:
                        w["touched"].add(hk)
                ref[hk] = [key, val, int(a[4]), int(a[5])]
            return None
        if name in ("get", "getraw"):
            hk = int(a[1])
            if hk not in ref:
                return None if reply == "nf" else "%s %d: absent key returned %s" % (name, hk, reply)
            r = reply.split()
            e = ref[hk]
            if reply == "nf" or len(r) != 5:
                return "%s %d: present key, reply %s" % (name, hk, reply)
            if [r[0], r[1], int(r[2]), int(r[3])] != e:
                return "%s %d: returned %s, last stored %s" % (name, hk, r[:4], e)
            return None
        if name == "getttl":
            hk = int(a[1])
            exp = str(ref[hk][2]) if hk in ref else "nf"
            return None if reply == exp else "getttl %d: %s, expected %s" % (hk, reply, exp)
        if name == "getkey":
            hk = int(a[1])
            exp = ref[hk][0] if hk in ref else "nf"
            return None if reply == exp else "getkey %d: %s, expected %s" % (hk, reply, exp)
        if name == "getla":
            hk = int(a[1])
            if (reply == "nf") != (hk not in ref):
                return "getla %d: %s" % (hk, reply)
            return None
        if name == "check":
            hk = int(a[1])
            exp = "true" if hk in ref else "false"
            return None if reply == exp else "check %d: %s, expected %s" % (hk, reply, exp)
        if name == "del":
            hk = int(a[1])
            if hk in ref:
                self.hit("delete_present")
                w = self.walk.get(sid)
                if w is not None:
                    w["touched"].add(hk)
            ref.pop(hk, None)
            return None if reply == "ok" else "del: %s" % reply
        if name == "updttl":
            hk = int(a[1])
            if hk in ref:
                if reply != "ok":
                    return "updttl %d on present key: %s" % (hk, reply)
                ref[hk][2] = int(a[2])
                ref[hk][3] = int(a[3])
            elif reply != "nf":
                return "updttl %d on absent key: %s" % (hk, reply)
            return None
        if name == "stats":
            r = reply.split()
            if int(r[3]) != len(ref):
                return "stats length %s, present keys %d" % (r[3], len(ref))
            return None
        if name == "range":
            r = reply.split()
            items = r[1:]
            got = {}
            for it in items:
                p = it.split(":")
                if int(p[0]) in got:
                    return "range visited hkey %s twice" % p[0]
                got[int(p[0])] = [p[1], p[2], int(p[3]), int(p[4])]
            if got != ref:
                return "range visited %s, present %s" % (sorted(got), sorted(ref))
            return None
        if name == "rangehkey":
            got = [] if reply == "-" else [int(x) for x in reply.split(",")]
            if got != sorted(ref):
                return "rangehkey %s, present %s" % (got, sorted(ref))
            return None
        if name == "compact":
            if reply.startswith("more"):
                self.more[sid] = self.more.get(sid, 0) + 1
                self.hit("compaction_step")
                if self.more[sid] > 50 + 4 * len(ref):
                    return "compaction did not complete after %d consecutive steps" % self.more[sid]
            elif reply == "done":
                self.more[sid] = 0
            else:
                return "compact: %s" % reply
            return None
        if name == "xfer":
            if reply == "eof":
                return None
            if not reply.startswith("ok order="):
                return "xfer: %s" % reply
            o = reply[len("ok order="):]
            order = [] if o == "-" else [int(x) for x in o.split(",")]
            dst = self.ref[a[1]]
            self.hit("xfer_table")
            for hk in order:
                if hk not in ref:
                    return "xfer exported hkey %d which is not present in the source" % hk
                rec = ref.pop(hk)
                if hk not in dst or rec[3] >= dst[hk][3]:
                    dst[hk] = rec
                    self.hit("xfer_merge_incoming_wins")
                else:
                    self.hit("xfer_merge_current_wins")
            for wid in (sid, a[1]):
                w = self.walk.get(wid)
                if w is not None:
                    w["mut"] = True
                    w["touched"].update(order)
            return None
        if name == "scan":
            cur, count, pat = a[1], int(a[2]), a[3]
            r = reply.split()
            nxt, keys = int(r[0]), r[1:]
            w = self.walk.get(sid)
            if cur == "0" or w is None:
                if cur != "0":
                    return None
                w = {"pat": pat, "seen": [], "mut": False, "touched": set(), "start": dict((h, v[0]) for h, v in ref.items()), "pages": 0}
                self.walk[sid] = w
            elif cur != "@" or w["pat"] != pat:
                self.walk.pop(sid, None)
                return None
            w["seen"] += keys
            w["pages"] += 1
            # every key that is present when some page is read (a page can only yield such keys)
            w.setdefault("everp", set(w["start"].values())).update(v[0] for v in ref.values())
            if count >= 1 and w["pages"] > 10 + 2 * (len(w["start"]) + len(ref)) + 64:
                return "scan walk did not terminate after %d pages" % w["pages"]
            if nxt == 0:
                self.walk.pop(sid)
                self.hit("scan_walk_done")

                def sel(keys_):
                    if pat == "*":
                        return list(keys_)
                    return [k for k in keys_ if k.startswith(pat)]
                if not w["mut"]:
                    if sorted(w["seen"]) != sorted(sel(v[0] for v in ref.values())):
                        return "full scan (count=%d, pattern=%s) yielded %s, present keys %s" % (
                            count, pat, sorted(w["seen"]), sorted(sel(v[0] for v in ref.values())))
                else:
                    self.hit("scan_walk_with_mutation")
                    stable = [k for h, k in w["start"].items() if h in ref and h not in w["touched"]]
                    for k in sel(stable):
                        if k not in w["seen"]:
                            return "key %s present during the whole scan was never yielded" % k
                    for k in w["seen"]:
                        if k not in w["everp"]:
                            return "scan yielded %s which was never present" % k
            return None
        return None


def parse_dump(reply):
    """-> list of tables: dict(cf,state,off,alloc,inuse,garbage,slots=[(hk,off,size)])"""
    import re
    m = re.search(r"tables=\[(.*)\] bycf=", reply)
    tabs = []
    if not m or not m.group(1):
        return tabs
    for t in m.group(1).split(";"):
        f = t.split("/")
        slots = []
        body = t[t.index("{") + 1:t.index("}")]
        if body:
            for sl in body.split(","):
                p = sl.split(":")
                if len(p) < 6:
                    slots.append((p[0], None))
                    continue
                hk, off = p[0].split("@")
                kl = 0 if p[1] == "-" else len(p[1]) // 2
                vl = 0 if p[2] == "-" else len(p[2]) // 2
                slots.append((int(hk), int(off), 29 + kl + vl))
        tabs.append({"cf": int(f[0]), "state": f[1], "off": int(f[2]), "alloc": int(f[3]), "inuse": int(f[4]),
                     "garbage": int(f[5]), "slots": slots, "idx": t.rsplit("/", 1)[1]})
    return tabs


def check_dump_accounting(reply):
    for t in parse_dump(reply):
        if any(len(s) < 3 for s in t["slots"]):
            return "table cf=%d: an index entry points to an undecodable record" % t["cf"]
        live = sum(s[2] for s in t["slots"])
        if t["inuse"] != live:
            return "table cf=%d: inuse=%d but live records occupy %d bytes" % (t["cf"], t["inuse"], live)
        if t["inuse"] + t["garbage"] != t["off"]:
            return "table cf=%d: inuse %d + garbage %d != bytes written %d (superseded bytes not accounted as garbage)" % (
                t["cf"], t["inuse"], t["garbage"], t["off"])
        if t["idx"] != "idx=ok":
            return "table cf=%d: offset index %s disagrees with the hkeys index" % (t["cf"], t["idx"])
        last = -1
        for (hk, off, size) in t["slots"]:
            if off < last:
                return "table cf=%d: overlapping records" % t["cf"]
            last = off + size
        if last > t["off"]:
            return "table cf=%d: record beyond the write offset" % t["cf"]
    return None


class Gen:
    def __init__(self, rng, tier="quick"):
        self.rng = rng
        self.tier = tier
        self.now = T0
        self.tsctr = 1000
        self.ver = 0

    def start(self):
        r = self.rng
        self.T = r.choice([256, 256, 512, 1024, 4096])
        self.nk = r.choice([3, 6, 12, 24])
        self.idle = r.choice([10**9, 60 * 10**9, 900 * 10**9])
        self.longkeys = r.random() < 0.1
        return ["watchdog 4s", "clock %d" % self.now, "kv.new a %d %d" % (self.T, self.idle), "kv.new b %d %d" % (self.T, self.idle)]

    def key(self, hk, raw=False):
        if self.longkeys and hk % 5 == 4:
            k = keyof(hk)
            # total key length 200..256 for Put (256 is rejected), at most 255 for a raw entry
            # (an encoded entry cannot carry a longer key: its length field is one byte)
            total = self.rng.choice([200, 254, 255] if raw else [200, 254, 255, 256])
            return k + b"k" * (total - len(k))
        return keyof(hk)

    def value(self, kl):
        r = self.rng
        T = self.T
        self.ver += 1
        cat = r.choices(["tiny", "third", "half", "edge", "quarter"], [40, 20, 15, 10, 15])[0]
        if cat == "tiny":
            n = r.randint(0, 8)
        elif cat == "third":
            n = T // 3 - 29 - kl + r.randint(-2, 2)
        elif cat == "quarter":
            n = T // 4 - 29 - kl + r.randint(-2, 2)
        elif cat == "half":
            n = T // 2 - 29 - kl + r.randint(-2, 2)
        else:
            n = T - 29 - kl + r.choice([-3, -2, -1, 0, 1, 5])
        n = max(0, n)
        return bytes([self.ver % 251 + 1]) * n

    def tick(self):
        self.now += self.rng.choice([1, 1000, 10**6, 10**8, 10**9])
        return "clock %d" % self.now

    def next(self, orc):
        r = self.rng
        sid = "a" if r.random() < 0.75 else "b"
        ref = orc.ref.get(sid, {})
        hk = r.randrange(self.nk)
        live = sorted(h for h in ref if h != 1000)
        if live and r.random() < 0.5:
            hk = r.choice(live)
        w = r.random() * 100
        if w < 30:
            k = self.key(hk)
            if r.random() < 0.03:
                k = b"L" * r.choice([255, 256, 300])
            v = self.value(len(k))
            self.tsctr += r.choice([0, 1, 1, 1, 5])
            ts = self.tsctr if r.random() < 0.9 else self.tsctr - r.randint(1, 50)
            ttl = 0 if r.random() < 0.7 else r.randint(1, 10**13)
            return "put %s %d %s %s %d %d" % (sid, hk, hx(k), hx(v), ttl, ts)
        if w < 40:
            k = self.key(hk, raw=True)
            v = self.value(len(k))
            self.tsctr += 1
            ttl = 0 if r.random() < 0.7 else r.randint(1, 10**13)
            return "putraw %s %d %s %s %d %d %d" % (sid, hk, hx(k), hx(v), ttl, self.tsctr, self.now - r.randint(0, 10**9))
        if w < 50:
            return "get %s %d" % (sid, hk)
        if w < 62:
            return "del %s %d" % (sid, hk)
        if w < 66:
            self.tsctr += 1
            return "updttl %s %d %d %d" % (sid, hk, r.randint(0, 10**13), self.tsctr)
        if w < 74:
            return "compact %s" % sid
        if w < 77:
            if getattr(self, "pinned", False):
                return "compact %s" % sid       # churn profile: the first table is never transferred
            return "xfer a b" if r.random() < 0.7 else "xfer b a"
        if w < 80:
            return "scan %s 0 %d %s" % (sid, r.choice([1, 2, 3, 10, 1000]), r.choice(["*", "*", "61", "62", "6131"]))
        if w < 84:
            if sid in orc.walk:
                w_ = orc.walk[sid]
                return "scan %s @ %d %s" % (sid, r.choice([1, 2, 3, 10]), w_["pat"])
            return "scan %s 0 %d *" % (sid, r.choice([1, 2, 5]))
        if w < 88:
            return "stats %s" % sid
        if w < 90:
            return r.choice(["range %s", "rangehkey %s"]) % sid
        if w < 93:
            return r.choice(["getraw", "getttl", "getkey", "check", "getla"]) + " %s %d" % (sid, hk)
        if w < 97:
            return self.tick()
        return "dump %s" % sid

    def age(self, sid):
        """compaction to completion, let every recycled table idle out, compaction again (the sweep)"""
        for _ in range(200):
            rep = yield "compact %s" % sid
            if not rep.startswith("more"):
                break
        rep = yield "stats %s" % sid
        before = int(rep.split()[4]) if len(rep.split()) == 5 else 0
        self.now += self.idle + 10**6
        yield "clock %d" % self.now
        yield "compact %s" % sid
        rep = yield "stats %s" % sid
        after = int(rep.split()[4]) if len(rep.split()) == 5 else 0
        if after < before:
            self.orc_hit("sweep_freed_table")
        yield "dump %s" % sid
        yield from self.walk(sid, "*")

    def walk_mixed(self, orc, sid):
        """a paged scan with other operations, compaction included, between the pages"""
        r = self.rng
        cnt = r.choice([1, 2, 3, 5])
        rep = yield "scan %s 0 %d *" % (sid, cnt)
        for _ in range(400):
            if rep.split()[0] in ("0", "nf", "hang", "dead") or rep.startswith("panic"):
                break
            for _ in range(r.randint(0, 3)):
                yield self.next(orc)
            kill = r.random() < 0.4
            if kill:
                # turn what was already yielded into garbage so that the table the cursor points
                # into is drained and recycled before the next page
                w_ = orc.walk.get(sid)
                seen = set(w_["seen"]) if w_ else set()
                for hk, v in sorted(orc.ref.get(sid, {}).items()):
                    if v[0] in seen and hk != 1000:
                        yield "del %s %d" % (sid, hk)
                orc.hit("walk_kill_scanned")
            if kill or r.random() < 0.35:
                for _ in range(100):
                    rr = yield "compact %s" % sid
                    if not rr.startswith("more"):
                        break
            if sid not in orc.walk:
                break
            rep = yield "scan %s @ %d *" % (sid, cnt)
        orc.hit("walk_mixed")

    def walk(self, sid, pat):
        cnt = self.rng.choice([1, 2, 3, 7, 1000])
        rep = yield "scan %s 0 %d %s" % (sid, cnt, pat)
        for _ in range(2000):
            if rep.split()[0] in ("0", "nf", "hang", "dead") or rep.startswith("panic"):
                break
            rep = yield "scan %s @ %d %s" % (sid, cnt, pat)

    def episode(self, orc, nops):
        self.orc_hit = orc.hit
        """coroutine: yields ops, receives the implementation's reply."""
        for op in self.start():
            yield op
        self.pinned = self.rng.random() < 0.5
        if self.pinned:
            # a pinned, never-touched key that keeps the first table (coefficient 0) alive and under
            # the compaction threshold for the whole episode
            k = b"a1000"
            n = (self.T * 62) // 100 - 29 - len(k)
            yield "put a 1000 %s %s 0 1" % (hx(k), hx(b"\x50" * n))
            orc.hit("pinned_first_table")
        for _ in range(nops):
            if self.rng.random() < 0.01:
                yield from self.age(self.rng.choice(["a", "b"]))
            if self.rng.random() < 0.012:
                yield from self.walk_mixed(orc, self.rng.choice(["a", "a", "b"]))
            yield self.next(orc)
        # closing: dumps, compaction to completion, full scan walks with and without a pattern
        r = self.rng
        for sid in ("a", "b"):
            yield "dump %s" % sid
            yield from self.age(sid)
            for _ in range(400):
                rep = yield "compact %s" % sid
                if not rep.startswith("more"):
                    break
            yield "stats %s" % sid
            for pat in ("*", r.choice(["61", "62"])):
                yield from self.walk(sid, pat)
            yield "range %s" % sid
            yield "dump %s" % sid


HEADER = 4
REQUIRED_SHAPES = ["overwrite", "delete_present", "xfer_table", "compaction_step", "scan_walk_done",
                   "size_eq_table", "sweep_freed_table", "pinned_first_table", "walk_mixed", "walk_kill_scanned", "scan_walk_with_mutation", "xfer_merge_current_wins", "xfer_merge_incoming_wins"]
