"""Stream `churn` (C20): long overwrite / delete / ttl-update / replica-write churn over a fixed key
set with small entries, compaction run to completion at intervals; oracle: accounting on every dump
and the allocation bound once compaction is done and idle tables are freed."""
from streams import kv
from streams.kv import hx, keyof, parse_dump, T0

HEADER = 4
REQUIRED_SHAPES = ["cold_table_pins_the_front", "bound_checked", "overwrite", "delete_present", "compaction_step", "done_checked_below_threshold", "drain_needs_several_batches", "tables_bounded_by_keys_mixed_sizes"]


class Oracle(kv.Oracle):
    def __init__(self):
        super().__init__()
        self.expect_bound = {}

    def observe(self, op, reply):
        msg = super().observe(op, reply)
        if msg:
            return msg
        f = op.split()
        if f[0] == "boundcheck":
            return None
        # C20: Compaction answers done only when no table behind the one being written holds 40 % garbage or more
        if f[0] == "compact":
            self.just_done = (reply == "done")
            if reply.startswith("more"):
                self.batches = getattr(self, "batches", 0) + 1
                if self.batches >= 2 and getattr(self, "big", False):
                    self.hit("drain_needs_several_batches")
            else:
                self.batches = 0
            return None
        if f[0] == "dump":
            if getattr(self, "just_done", False):
                self.hit("done_checked_below_threshold")
                for t in parse_dump(reply):
                    if t["state"] != "rw" and not t["slots"] and t["garbage"] > 0:
                        return ("Compaction answered done although table cf=%d (%s) holds no live entry and %d bytes of garbage of %d allocated: "
                                "it is kept for nothing (and never reaches the 40 %% ratio)" % (t["cf"], t["state"], t["garbage"], t["alloc"]))
                    if t["state"] != "rw" and t["garbage"] * 5 >= t["alloc"] * 2:
                        return ("Compaction answered done although table cf=%d (%s) holds %d bytes of garbage of %d allocated, "
                                "%d entries still live in it" % (t["cf"], t["state"], t["garbage"], t["alloc"], len(t["slots"])))
            return None
        if f[0] not in ("stats", "clock", "get", "scan", "range", "rangehkey"):
            self.just_done = False
        if f[0] == "stats" and getattr(self, "cold_bound", None):
            # cold keys pin the oldest table while hot keys churn, compaction runs to completion after every round and no
            # table is ever idle: a roll-over allocates only when no recycled table is left, and then every table is either
            # one that compaction left with > 0.6 T - E live bytes, or one filled during the current round
            alloc, inuse, garbage, length, ntab = [int(x) for x in reply.split()]
            self.hit("cold_table_pins_the_front")
            if ntab > self.cold_bound:
                return ("hot keys overwritten in rounds, compaction completed after every round, a few cold keys in the oldest table: %d tables "
                        "(%d bytes allocated) for %d present keys and %d live bytes; at most %d tables are ever needed at once: "
                        "recycled tables are not used again" % (ntab, alloc, length, inuse, self.cold_bound))
            return None
        if f[0] == "stats" and self.expect_bound.pop(f[1], False):
            r = [int(x) for x in reply.split()]
            alloc, inuse, garbage, length, ntab = r
            T = self.ts[f[1]]
            E = self.maxentry
            # every retired table holds > 0.6 T - E live bytes; + head + at most one not yet freed table
            per = (6 * T) // 10 - E
            bound = T * (inuse // per + 3)
            self.hit("bound_checked")
            # every table behind the one being written holds a live entry of its own once compaction is done and the idle
            # tables were freed (C20_tables_le_keys): tables <= present keys + the head (+ 1)
            if ntab > length + 2:
                return ("after compaction completed and idle tables were freed: %d tables for %d present keys "
                        "(%d bytes allocated, %d in use, %d garbage): tables without a live entry are kept" % (ntab, length, alloc, inuse, garbage))
            if getattr(self, "mixed", False):
                self.hit("tables_bounded_by_keys_mixed_sizes")
                return None
            if alloc > bound:
                return ("after compaction completed: allocated %d bytes in %d tables for %d live bytes "
                        "(bound %d with table size %d, entries <= %d)" % (alloc, ntab, inuse, bound, T, E))
        return None


class Gen(kv.Gen):
    def start(self):
        r = self.rng
        self.T = r.choice([512, 1024, 4096])
        self.nk = r.choice([4, 8, 16])
        self.idle = 10**9
        self.longkeys = False
        self.pinned = False
        self.backup = r.random() < 0.5      # replica-style store: only raw writes and deletes
        self.maxentry = self.T // 8
        return ["watchdog 4s", "clock %d" % self.now, "kv.new a %d %d" % (self.T, self.idle), "kv.new b %d %d" % (self.T, self.idle)]

    def value(self, kl):
        self.ver += 1
        n = self.rng.randint(0, self.maxentry - 29 - kl)
        return bytes([self.ver % 251 + 1]) * n

    def next(self, orc):
        r = self.rng
        sid = "a"
        hk = r.randrange(self.nk)
        w = r.random() * 100
        k = keyof(hk)
        if w < 55:
            v = self.value(len(k))
            self.tsctr += 1
            ttl = 0 if r.random() < 0.7 else r.randint(1, 10**13)
            if self.backup:
                return "putraw a %d %s %s %d %d %d" % (hk, hx(k), hx(v), ttl, self.tsctr, self.now)
            return "put a %d %s %s %d %d" % (hk, hx(k), hx(v), ttl, self.tsctr)
        if w < 75:
            return "del a %d" % hk
        if w < 82 and not self.backup:
            self.tsctr += 1
            return "updttl a %d %d %d" % (hk, r.randint(0, 10**13), self.tsctr)
        if w < 90:
            return "get a %d" % hk
        if w < 96:
            return "compact a"
        return self.tick()

    def big(self, orc):
        """directed: a table with far more entries than one evictTable call moves (1001): fill it, roll over, delete
        45 % of it, compact to completion (several batches), check the tables when done is answered"""
        r = self.rng
        self.T, self.idle, self.maxentry = 65536, 10**9, 64
        orc.maxentry = 64
        orc.big = True
        yield "watchdog 60s"
        yield "clock %d" % self.now
        yield "kv.new a %d %d" % (self.T, self.idle)
        yield "kv.new b %d %d" % (self.T, self.idle)
        n = 2100
        for hk in range(n):
            self.tsctr += 1
            k = keyof(hk)
            yield "put a %d %s %s 0 %d" % (hk, hx(k), hx(b"x"), self.tsctr)
        dels = list(range(0, 1900, 2))[:r.choice([850, 900])]
        for hk in dels:
            yield "del a %d" % hk
        yield "stats a"
        for _ in range(40):
            rep = yield "compact a"
            if not rep.startswith("more"):
                break
        yield "dump a"
        orc.expect_bound["a"] = True
        yield "stats a"
        for hk in r.sample(range(n), 40):
            yield "get a %d" % hk
        orc.big = False

    def mixed(self, orc):
        """directed: small and large entries alternate (the large one does not fit behind the small one), so tables are
        retired nearly empty; their few entries are then overwritten.  Compaction to completion after every round."""
        r = self.rng
        self.T, self.idle = 1000, 10**9
        orc.maxentry = 960
        orc.mixed = True
        yield "watchdog 60s"
        yield "clock %d" % self.now
        yield "kv.new a %d %d" % (self.T, self.idle)
        yield "kv.new b %d %d" % (self.T, self.idle)
        small, large = r.choice([20, 48, 90]), r.choice([880, 919])
        for i in range(r.choice([25, 40])):
            for hk, n in ((1, small), (2, large)):
                self.tsctr += 1
                if self.backup:
                    yield "putraw a %d %s %s 0 %d %d" % (hk, hx(keyof(hk)), hx(bytes([i % 250 + 1]) * n), self.tsctr, self.now)
                else:
                    yield "put a %d %s %s 0 %d" % (hk, hx(keyof(hk)), hx(bytes([i % 250 + 1]) * n), self.tsctr)
            if r.random() < 0.8:
                for _ in range(8):
                    rep = yield "compact a"
                    if not rep.startswith("more"):
                        break
        yield from self.settle(orc)
        yield "get a 1"
        yield "get a 2"

    def cold(self, orc):
        """directed: a few keys written once sit in the oldest table for ever (less than 40 % of it is garbage), other keys
        are overwritten round after round; compaction runs to completion after every round; nothing is ever idle."""
        r = self.rng
        self.T, self.idle = r.choice([512, 1024]), 10**15
        self.maxentry = E = self.T // 8
        orc.maxentry = E
        self.backup = r.random() < 0.5
        ncold, nhot, per_round = r.choice([6, 7]), r.choice([2, 4, 6]), r.choice([12, 20])      # 6 full-size entries: 75 % of a table
        yield "watchdog 60s"
        yield "clock %d" % self.now
        yield "kv.new a %d %d" % (self.T, self.idle)
        yield "kv.new b %d %d" % (self.T, self.idle)

        def put(hk, n):
            self.tsctr += 1
            k = keyof(hk)
            v = bytes([self.tsctr % 250 + 1]) * n
            if self.backup:
                return "putraw a %d %s %s 0 %d %d" % (hk, hx(k), hx(v), self.tsctr, self.now)
            return "put a %d %s %s 0 %d" % (hk, hx(k), hx(v), self.tsctr)

        for hk in range(100, 100 + ncold):
            yield put(hk, E - 29 - len(keyof(hk)) - r.randint(0, 3))
        live_tables = ((ncold + nhot) * E) // ((6 * self.T) // 10 - E) + 3
        round_tables = -(-per_round * E // (self.T - E)) + 1
        for rnd in range(45):
            for _ in range(per_round):
                hk = r.randrange(nhot)
                yield put(hk, r.randint(E // 2, E - 29 - len(keyof(hk))))
            for _ in range(600):
                rep = yield "compact a"
                if not rep.startswith("more"):
                    break
            orc.cold_bound = live_tables + round_tables
            yield "stats a"
            orc.cold_bound = None
        for hk in list(range(nhot)) + list(range(100, 100 + ncold)):
            yield "get a %d" % hk

    def episode(self, orc, nops):
        self.orc_hit = orc.hit
        if getattr(self, "ep", -1) == 3:
            yield from self.cold(orc)
            return
        if getattr(self, "ep", -1) == 1:
            yield from self.big(orc)
            return
        if getattr(self, "ep", -1) == 2:
            self.backup = self.rng.random() < 0.5
            yield from self.mixed(orc)
            return
        for op in self.start():
            yield op
        orc.maxentry = self.maxentry
        for i in range(nops):
            yield self.next(orc)
            if i % 120 == 119:
                yield from self.settle(orc)
        yield from self.settle(orc)
        yield from self.walk("a", "*")
        yield "range a"

    def settle(self, orc):
        for _ in range(600):
            rep = yield "compact a"
            if not rep.startswith("more"):
                break
        self.now += self.idle + 10**6
        yield "clock %d" % self.now
        yield "compact a"
        yield "dump a"
        orc.expect_bound["a"] = True
        yield "stats a"
