"""Stream `churn` (C20): long overwrite / delete / ttl-update / replica-write churn over a fixed key
set with small entries, compaction run to completion at intervals; oracle: accounting on every dump
and the allocation bound once compaction is done and idle tables are freed."""
from streams import kv
from streams.kv import hx, keyof, T0

HEADER = 4
REQUIRED_SHAPES = ["bound_checked", "overwrite", "delete_present", "compaction_step"]


class Oracle(kv.Oracle):
    def __init__(self):
        super().__init__()
        self.expect_bound = {}

    def observe(self, op, reply):
        msg = super().observe(op, reply)
        if msg:
            return msg
        f = op.split()
        if f[0] == "boundcheck":
            return None
        if f[0] == "stats" and self.expect_bound.pop(f[1], False):
            r = [int(x) for x in reply.split()]
            alloc, inuse, garbage, length, ntab = r
            T = self.ts[f[1]]
            E = self.maxentry
            # every retired table holds > 0.6 T - E live bytes; + head + at most one not yet freed table
            per = (6 * T) // 10 - E
            bound = T * (inuse // per + 3)
            self.hit("bound_checked")
            if alloc > bound:
                return ("after compaction completed: allocated %d bytes in %d tables for %d live bytes "
                        "(bound %d with table size %d, entries <= %d)" % (alloc, ntab, inuse, bound, T, E))
        return None


class Gen(kv.Gen):
    def start(self):
        r = self.rng
        self.T = r.choice([512, 1024, 4096])
        self.nk = r.choice([4, 8, 16])
        self.idle = 10**9
        self.longkeys = False
        self.pinned = False
        self.backup = r.random() < 0.5      # replica-style store: only raw writes and deletes
        self.maxentry = self.T // 8
        return ["watchdog 4s", "clock %d" % self.now, "kv.new a %d %d" % (self.T, self.idle), "kv.new b %d %d" % (self.T, self.idle)]

    def value(self, kl):
        self.ver += 1
        n = self.rng.randint(0, self.maxentry - 29 - kl)
        return bytes([self.ver % 251 + 1]) * n

    def next(self, orc):
        r = self.rng
        sid = "a"
        hk = r.randrange(self.nk)
        w = r.random() * 100
        k = keyof(hk)
        if w < 55:
            v = self.value(len(k))
            self.tsctr += 1
            ttl = 0 if r.random() < 0.7 else r.randint(1, 10**13)
            if self.backup:
                return "putraw a %d %s %s %d %d %d" % (hk, hx(k), hx(v), ttl, self.tsctr, self.now)
            return "put a %d %s %s %d %d" % (hk, hx(k), hx(v), ttl, self.tsctr)
        if w < 75:
            return "del a %d" % hk
        if w < 82 and not self.backup:
            self.tsctr += 1
            return "updttl a %d %d %d" % (hk, r.randint(0, 10**13), self.tsctr)
        if w < 90:
            return "get a %d" % hk
        if w < 96:
            return "compact a"
        return self.tick()

    def episode(self, orc, nops):
        self.orc_hit = orc.hit
        for op in self.start():
            yield op
        orc.maxentry = self.maxentry
        for i in range(nops):
            yield self.next(orc)
            if i % 120 == 119:
                yield from self.settle(orc)
        yield from self.settle(orc)
        yield from self.walk("a", "*")
        yield "range a"

    def settle(self, orc):
        for _ in range(600):
            rep = yield "compact a"
            if not rep.startswith("more"):
                break
        self.now += self.idle + 10**6
        yield "clock %d" % self.now
        yield "compact a"
        yield "dump a"
        orc.expect_bound["a"] = True
        yield "stats a"
