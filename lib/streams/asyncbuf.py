"""Stream `asyncbuf` (C18, asynchronous replication): "a caller may reuse the buffers it passed to Put as soon as Put returns"
also when the backup copies are written after Put has returned.  Two or three members, ReplicaCount 2-3,
ReplicationMode async.  Values of a few KiB are Put through the embedded client of the key's owner and of other members,
through the cluster client and a pipeline; the harness writes 0x58 over every buffer it passed as soon as the call has
returned (as it does in every stream).  Then the copies are read white-box once the backup writes have arrived.

Oracle: the primary copy and every backup copy hold the bytes that were passed to Put."""
from streams.cluster import T0, hx
from streams.repair import parse_wb

NO_MODEL = True
HEADER = 3
REQUIRED_SHAPES = ["puts_back_to_back", "backup_copy_checked", "put_on_owner", "put_elsewhere"]


class Oracle:
    def __init__(self):
        self.shapes = {}
        self.route = {}
        self.last = {}

    def hit(self, s):
        self.shapes[s] = self.shapes.get(s, 0) + 1

    def observe(self, op, reply):
        f = op.split()
        name, a = f[0], f[1:]
        if reply.startswith("err:") or reply.startswith("other:") or reply.split()[0] in ("bad-op", "no-cluster", "hang", "neterr", "down"):
            return "unexpected reply %r to %s" % (reply[:160], op[:100])
        if name == "c.own":
            p, b = reply.split("pick=")[1].split()[0].split("/")
            self.route[a[1]] = (int(p.split(",")[-1]), [int(x) for x in b.split(",")] if b != "-" else [])
            return None
        if name == "c.put":
            if reply != "ok":
                return "Put: %s" % reply[:80]
            self.last[a[3]] = a[4]
            self.hit("put_on_owner" if int(a[1]) == self.route[a[3]][0] else "put_elsewhere")
            return None
        if name == "wb.wait":
            key = a[1]
            owner, baks = self.route[key]
            want = self.last.get(key)
            seen = parse_wb(reply)
            pc = seen.get((owner, "P"))
            if pc is None or pc[0] != want:
                return "the primary copy holds %s..., the value passed to Put was %s..." % ((pc or ["-"])[0][:24], want[:24])
            for b in baks:
                c = seen.get((b, "B"))
                self.hit("backup_copy_checked")
                if c is None or c[0] != want:
                    return ("the backup copy on m%d holds %s..., the value passed to Put was %s... (asynchronous replication: "
                            "the buffer was reused by the caller after Put had returned)" % (b, (c or ["-"])[0][:24], want[:24]))
            return None
        return None


class Gen:
    def __init__(self, rng, tier="quick"):
        self.rng = rng

    def episode(self, orc, nops):
        r = self.rng
        n = r.choice([2, 3])
        R = r.choice([2, min(3, n)])
        yield "watchdog 60s"
        yield "clock %d" % T0
        yield "c.new n=%d r=%d w=1 rq=1 rr=0 parts=%d tsize=%d repl=async" % (n, R, r.choice([3, 7]), 1 << 20)
        keys = [hx(b"b%d" % i) for i in range(6)]
        owners = {}
        for k in keys:
            rep = yield "c.own dm %s" % k
            owners[k] = int(rep.split("pick=")[1].split()[0].split("/")[0].split(",")[-1])
        now = T0
        for i in range(nops or 30):
            k = r.choice(keys)
            now += 1_000_000
            yield "clock %d" % now
            path = r.choice(["emb", "emb", "emb", "cli", "pipe"])
            m = owners[k] if r.random() < 0.6 else r.randrange(n)
            val = bytes([65 + i % 20]) * r.choice([64, 4096, 65536])
            yield "c.put %s %d dm %s %s" % (path, m, k, hx(val))
            burst = []
            if r.random() < 0.4:
                # ... and further Puts right behind it (other keys, other bytes, often through the same member), before the backup
                # writes of the first one have happened: whatever the member re-uses between two Puts is re-used here
                for j, k2 in enumerate(r.sample([x for x in keys if x != k], r.choice([1, 2, 3]))):
                    val2 = bytes([97 + (i + j) % 20]) * r.choice([64, 64, 4096])
                    yield "c.put %s %d dm %s %s" % (r.choice([path, "emb"]), m if r.random() < 0.7 else r.randrange(n), k2, hx(val2))
                    burst.append(k2)
                orc.hit("puts_back_to_back")
            yield "wb.wait dm %s" % k
            for k2 in burst:
                yield "wb.wait dm %s" % k2
