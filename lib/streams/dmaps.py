"""Stream `dmaps` (C19): the cluster stream over DMap names and keys whose concatenations collide
(("ab","c") and ("a","bc") hash to the same hkey and partition), with frequent Destroy followed by a
white-box listing of every member's primary and backup entries and a client iteration."""
from streams import cluster
from streams.cluster import Oracle, HEADER, hx   # noqa: F401

REQUIRED_SHAPES = ["destroy", "wb_keys_checked", "iterator_checked", "mirror_checked"]


class Gen(cluster.Gen):
    dms = ["ab", "a", "abc"]
    keyset = [b"c", b"bc", b"", b"b", b"k1", b"abc"]
    pdestroy = 0.03

    def __init__(self, rng, tier="quick"):
        super().__init__(rng, tier)
        self.keyset = [k for k in Gen.keyset if k]   # an empty key is not a valid RESP argument for every path
