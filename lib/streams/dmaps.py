"""Stream `dmaps` (C19): the cluster stream over DMap names and keys whose concatenations collide
(("ab","c") and ("a","bc") hash to the same hkey and partition), with frequent Destroy followed by a
white-box listing of every member's primary and backup entries and a client iteration."""
from streams import cluster
from streams.cluster import Oracle, HEADER, hx   # noqa: F401

REQUIRED_SHAPES = ["name_and_prefixed_name", "destroy", "wb_keys_checked", "iterator_checked", "mirror_checked"]


class Gen(cluster.Gen):
    dms = ["ab", "a", "abc"]
    keyset = [b"c", b"bc", b"", b"b", b"k1", b"abc"]
    pdestroy = 0.03

    def __init__(self, rng, tier="quick"):
        super().__init__(rng, tier)
        self.keyset = [k for k in Gen.keyset if k]   # an empty key is not a valid RESP argument for every path

    def episode(self, orc, nops):
        # every third episode: a name and the same name behind the prefix the implementation itself puts in front of
        # fragment names ("orders" and "dmap.orders" are two DMaps)
        self.dms = ["ab", "dmap.ab", "dmap.dmap.ab"] if getattr(self, "ep", 0) % 3 == 2 else Gen.dms
        if self.dms is not Gen.dms:
            orc.hit("name_and_prefixed_name")
        return super().episode(orc, nops)
