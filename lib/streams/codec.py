"""Stream `codec` (C17): typed values through resp.Encode/Scan, entries through Entry.Encode/Decode,
boundary-centred.  The oracle is the round-trip property itself, evaluated on the implementation."""
import struct

HEADER = 1
REQUIRED_SHAPES = ["int_boundary", "int_out_of_range", "entry_roundtrip", "float_extreme", "binary_bytes"]


def hx(b):
    return b.hex() if b else "-"


class Oracle:
    def __init__(self):
        self.shapes = {}

    def hit(self, s):
        self.shapes[s] = self.shapes.get(s, 0) + 1

    def observe(self, op, reply):
        f = op.split()
        name, a = f[0], f[1:]
        if name == "watchdog":
            return None
        if reply.startswith("err:") and name.startswith(("enc.", "rt.", "entry.")):
            return "%s: %s" % (op[:80], reply)
        if name in ("enc.int", "enc.uint"):
            bits, n = int(a[0]), int(a[1])
            txt, back = reply.split()
            if bytes.fromhex(txt).decode() != str(n):
                return "%s: encoded as %r" % (op, bytes.fromhex(txt))
            if back != str(n):
                return "%s: read back %s" % (op, back)
            lim = 2 ** (bits - 1) if name == "enc.int" else 2 ** bits
            if n in (lim - 1, -lim, 0, -1) or n == lim - 1:
                self.hit("int_boundary")
            return None
        if name in ("scan.int", "scan.uint"):
            bits = int(a[0])
            txt = bytes.fromhex(a[1]).decode("latin1") if a[1] != "-" else ""
            try:
                n = int(txt) if txt.lstrip("+-").isdigit() and "_" not in txt and txt.strip() == txt else None
            except ValueError:
                n = None
            if name == "scan.uint" and txt[:1] in ("+", "-"):
                n = None
            if n is None:
                return None if reply.startswith("err:") else "%s: accepted %r as %s" % (name, txt, reply)
            lo, hi = (-(2 ** (bits - 1)), 2 ** (bits - 1) - 1) if name == "scan.int" else (0, 2 ** bits - 1)
            if lo <= n <= hi:
                return None if reply == str(n) else "%s %d bits: %r read as %s" % (name, bits, txt, reply)
            self.hit("int_out_of_range")
            return None if reply == "err:range" else "%s %d bits: out-of-range %r read as %s (must be a range error, not a wrapped value)" % (name, bits, txt, reply)
        if name == "entry.enc":
            self.last_enc = (a, reply)
            return None
        if name == "entry.dec":
            if getattr(self, "last_enc", None) and self.last_enc[1] == a[0]:
                src = self.last_enc[0]
                if reply.split() != src:
                    return "entry decode(encode(x)) = %s, x = %s" % (reply[:200], " ".join(src)[:200])
                self.hit("entry_roundtrip")
            return None
        if name.startswith("rt."):
            if name in ("rt.float64", "rt.float32"):
                self.hit("float_extreme")
            if name in ("rt.bytes", "rt.string", "rt.marshaler"):
                self.hit("binary_bytes")
            return None if reply == "same" else "%s: value read back %s" % (op[:100], reply)
        return None


class Gen:
    def __init__(self, rng, tier="quick"):
        self.rng = rng

    def rand_bytes(self, n=None):
        r = self.rng
        if n is None:
            n = r.choice([0, 1, 2, 3, 8, 31, 255, 256, 1000])
        pool = [0, 13, 10, 32, 255, 0x2d, 0x2b, 0x5f, 0x24, 0x2a] + list(range(48, 58))
        return bytes(r.choice(pool) if r.random() < 0.7 else r.randrange(256) for _ in range(n))

    def episode(self, orc, nops):
        r = self.rng
        yield "watchdog 5s"
        for _ in range(nops):
            w = r.random()
            if w < 0.25:
                bits = r.choice([8, 16, 32, 64])
                lim = 2 ** (bits - 1)
                n = r.choice([0, 1, -1, lim - 1, -lim, lim - 2, -lim + 1, r.randrange(-lim, lim)])
                yield "enc.int %d %d" % (bits, n)
            elif w < 0.40:
                bits = r.choice([8, 16, 32, 64])
                lim = 2 ** bits
                n = r.choice([0, 1, lim - 1, lim - 2, r.randrange(0, lim)])
                yield "enc.uint %d %d" % (bits, n)
            elif w < 0.60:
                bits = r.choice([8, 16, 32, 64])
                lim = 2 ** (bits - 1)
                kind = r.choice(["int", "uint"])
                cand = [str(lim), str(-lim - 1), str(lim - 1), str(-lim), str(2 * lim), str(2 * lim - 1), str(2 * lim + 5),
                        "+5", "-0", "007", "", "-", "+", "1_0", " 1", "1 ", "0x10", "1e3", "12a", "9" * 30, "-" + "9" * 30,
                        str(r.randrange(-4 * lim, 4 * lim))]
                yield "scan.%s %d %s" % (kind, bits, hx(r.choice(cand).encode()))
            elif w < 0.75:
                key = self.rand_bytes(r.choice([0, 1, 5, 254, 255]))
                val = self.rand_bytes()
                big = 2 ** 63
                ttl = r.choice([0, 1, big - 1, -big, -1, r.randrange(0, 2 ** 42)])
                ts = r.choice([0, big - 1, -big, r.randrange(0, 2 ** 62)])
                la = r.choice([0, big - 1, r.randrange(0, 2 ** 62)])
                rep = yield "entry.enc %s %s %d %d %d" % (hx(key), hx(val), ttl, ts, la)
                yield "entry.dec %s" % rep
            elif w < 0.80:
                # truncated / malformed raw entries: Decode must not be handed them unchecked (model: panic)
                b = self.rand_bytes(r.choice([0, 1, 5, 28, 29, 30, 40]))
                yield "entry.dec %s" % hx(b)
            elif w < 0.88:
                specials = [0x0, 0x8000000000000000, 0x1, 0x7fefffffffffffff, 0x7ff0000000000000, 0xfff0000000000000,
                            0x7ff8000000000001, 0x3ff0000000000001, 0x433fffffffffffff, 0x0010000000000000, 0x3fb999999999999a]
                bits = r.choice(specials) if r.random() < 0.6 else r.getrandbits(64)
                yield "rt.float64 %016x" % bits
            elif w < 0.92:
                specials = [0x0, 0x80000000, 0x1, 0x7f7fffff, 0x7f800000, 0x3dcccccd, 0x00800000]
                bits = r.choice(specials) if r.random() < 0.6 else r.getrandbits(32)
                yield "rt.float32 %08x" % bits
            elif w < 0.95:
                yield "rt.time %d %d %d" % (r.choice([0, 1, 1700000000, 253402300799 - 86400, -1, r.randrange(0, 2 ** 33)]),
                                            r.choice([0, 1, 999999999, r.randrange(10 ** 9)]),
                                            r.choice([0, 3600, -3600, 19800, -34200]))
            elif w < 0.98:
                yield r.choice(["rt.bytes", "rt.string", "rt.marshaler"]) + " " + hx(self.rand_bytes())
            else:
                yield "rt.bool " + r.choice(["true", "false"])
                yield "scan.bool " + hx(r.choice([b"1", b"0", b"", b"11", b"true", b"\x01"]))
