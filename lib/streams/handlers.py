"""Stream `handlers` (C16b): every command registered on a live member's mux — taken from the running
server, so a new command is covered automatically — with argument vectors built from a token alphabet
(valid names, keywords in both cases, extreme / negative / non-numeric numbers, empty and binary
strings, well-formed and malformed payloads), on a member that already holds data.  Oracle: the member
answers every request (value or error) and stays responsive.  No Lean model for the handler bodies."""
NO_MODEL = True
HEADER = 3
REQUIRED_SHAPES = ["crafted_fragment_handover", "crafted_routing_push", "one_reply_per_command", "subscriber_mode_sequences", "entry_size_around_table_size", "skeleton_mutations", "malformed_raw_entry", "all_commands_covered", "numeric_extremes", "member_alive_checked"]

NUM = [b"0", b"1", b"-1", b"6", b"7", b"100000", b"9223372036854775807", b"-9223372036854775808", b"18446744073709551615",
       b"99999999999999999999999", b"1.5", b"-0.5", b"NaN", b"abc", b""]
KW = [b"NX", b"XX", b"EX", b"PX", b"EXAT", b"PXAT", b"MATCH", b"COUNT", b"RC", b"RW", b"LC", b"CR", b"nx", b"match", b"count", b"rc"]
NAMES = [b"h", b"k1", b"k2", b"nosuch", b"dmap.h", b"*", b"[", b"(", b"\xff\x00\x01", b"a" * 300]


def hx(b):
    return b.hex() if b else "-"


class Oracle:
    def __init__(self):
        self.shapes = {}

    def hit(self, s):
        self.shapes[s] = self.shapes.get(s, 0) + 1

    def observe(self, op, reply):
        f = op.split()
        if f[0] == "c.rawcmd":
            if reply.startswith("noreply"):
                toks = [bytes.fromhex(x).decode("latin1") if x != "-" else "" for x in f[2:]]
                if reply == "noreply" and toks and toks[0].lower() == "dm.lock" and len(toks) >= 4:
                    # DM.LOCK waits up to <deadline> seconds for a key that is taken: not answering within the
                    # harness's 4 s is what it must do when the deadline is longer (the member itself still answers)
                    try:
                        if float(toks[3]) >= 3.0:
                            self.hit("lock_waits_for_its_deadline")
                            return None
                    except ValueError:
                        pass
                cmd = " ".join(t if t else "''" for t in toks)[:160]
                return "no reply to [%s]: %s" % (cmd, reply)
            return None
        if f[0] == "c.badfragment":
            self.hit("crafted_fragment_handover")
            if reply == "no-partition":
                return None
            if reply.startswith("noreply") or not reply.endswith(" alive"):
                return ("a fragment hand-over for a partition the member owns, whose table has %s: %s" % (
                    {"offset": "a write offset beyond its allocation", "hkey": "an index entry pointing outside the table",
                     "vlen": "a value length that runs past the end", "short": "less memory than its offset says"}.get(f[2], f[2]), reply[:100]))
            return None
        if f[0] == "c.badrouting":
            self.hit("crafted_routing_push")
            if reply.startswith("noreply") or not reply.endswith(" alive"):
                return ("a routing-table push that is well formed on the wire (PartitionCount entries, the coordinator's id) but carries %s: %s" % (
                    {"oob": "a partition id out of range", "nilroute": "a nil route", "empty": "a route without owners"}.get(f[2], f[2]), reply[:100]))
            return None
        if f[0] == "c.rawframe":
            toks = [bytes.fromhex(x).decode("latin1") if x != "-" else "" for x in f[2:]]
            cmd = " ".join(t if t else "''" for t in toks)[:120]
            first = toks[0].lower() if toks else ""
            if first in ("subscribe", "psubscribe", "quit"):
                return None          # the connection changes its mode: what follows is answered differently, or not at all
            if reply.startswith("first=none") or "second=none" in reply:
                if first == "dm.lock":
                    return None      # may wait for its deadline
                return "one connection, [%s] followed by PING: %s" % (cmd, reply[:100])
            self.hit("one_reply_per_command")
            if " second=+PONG extra=0" not in reply:
                return ("one connection, [%s] followed by PING: %s - the command was answered twice or not at all, every later reply "
                        "on this connection belongs to the wrong command" % (cmd, reply[:120]))
            return None
        if f[0] == "c.rawseq":
            return None if reply == "ok" else "after a sequence of commands over one connection the member does not answer: %s" % reply[:80]
        if reply.startswith("err:") or reply in ("bad-op", "no-cluster"):
            return "unexpected %r" % reply[:100]
        if f[0] == "c.get" and f[1] == "cli":
            self.hit("member_alive_checked")
            if reply in ("neterr",) or reply.startswith("other"):
                return "member stopped answering ordinary requests: %s" % reply[:100]
        return None


class Gen:
    def __init__(self, rng, tier="quick"):
        self.rng = rng
        self.tier = tier

    def episode(self, orc, nops):
        r = self.rng
        yield "watchdog 60s"
        yield "clock 1700000000000000000"
        # every other episode the DMap under fire has a custom configuration section that sets a TTL and nothing else
        # (no storage engine of its own): whatever creates the DMap - any of the mutated commands - runs through it
        custom = " cdm=h cttl_ms=600000 cnoeng=1" if getattr(self, "ep", 0) % 2 == 1 else ""
        yield "c.new n=2 r=2 w=1 rq=1 parts=7 tsize=4096%s" % custom
        for i in range(24):
            yield "c.put emb 0 h %s %s" % (hx(b"k%d" % i), hx(b"v%d" % i))
        cmds = (yield "c.commands 0").split(",")
        per = max(20, nops // max(1, len(cmds)))
        for cmdname in cmds:
            parts = [x.encode() for x in cmdname.split(" ")]
            dangerous = cmdname in ("internal.node.updaterouting",)   # a well-formed push would re-route the test cluster
            for j in range(per):
                n = r.randint(0, 6)
                args = []
                for _ in range(n):
                    c = r.random()
                    if c < 0.4:
                        args.append(r.choice(NUM))
                        orc.hit("numeric_extremes")
                    elif c < 0.6:
                        args.append(r.choice(KW))
                    else:
                        args.append(r.choice(NAMES))
                # plausible shapes first: <dmap> <key> ... / <partID> <dmap> <cursor> ...
                if j % 3 == 0 and n >= 2:
                    args[0] = r.choice([b"h", r.choice(NUM)])
                    args[1] = r.choice([b"h", b"k1", r.choice(NUM)])
                if cmdname == "dm.scan" and j % 2 == 0:
                    args = [r.choice(NUM), b"h", r.choice(NUM)] + r.choice([[], [b"COUNT", r.choice(NUM)], [b"MATCH", r.choice(NAMES)],
                                                                   [b"COUNT", r.choice(NUM), b"RC"], [b"RC", b"COUNT", r.choice(NUM)]])
                if dangerous:
                    args = [r.choice(NAMES + NUM) for _ in range(r.randint(0, 3))]
                m = r.randrange(2)
                yield "c.rawcmd %d %s" % (m, " ".join(hx(t) for t in parts + args))
            yield "c.get cli 0 h %s" % hx(b"k1")
            yield "c.get cli 1 h %s" % hx(b"k2")
        orc.hit("all_commands_covered")
        # well-formed invocations of the known commands, then every single position replaced by every
        # extreme / malformed token (the failures that need all OTHER arguments to be valid)
        tokhex = (b"0123456789abcdef" * 2)
        skeletons = [
            [b"dm.put", b"h", b"k1", b"v", b"PX", b"1000", b"NX"], [b"dm.put", b"h", b"k1", b"v", b"EX", b"1.5"],
            [b"dm.get", b"h", b"k1", b"RW"], [b"dm.del", b"h", b"k1", b"k2"], [b"dm.getentry", b"h", b"k1", b"RC"],
            [b"dm.delentry", b"h", b"k9", b"RC"], [b"dm.expire", b"h", b"k1", b"1"], [b"dm.pexpire", b"h", b"k1", b"1000"],
            [b"dm.destroy", b"nosuch", b"LC"], [b"dm.scan", b"0", b"h", b"0", b"COUNT", b"10", b"MATCH", b"k"],
            [b"dm.scan", b"3", b"h", b"0", b"COUNT", b"2", b"RC"], [b"dm.scan", b"5", b"h", b"0", b"MATCH", b"^k", b"COUNT", b"3"],
            [b"dm.incr", b"h", b"c", b"1"], [b"dm.decr", b"h", b"c", b"1"], [b"dm.getput", b"h", b"k3", b"v", b"RW"],
            [b"dm.incrbyfloat", b"h", b"f", b"1.5"], [b"dm.lock", b"h", b"l1", b"0.01", b"PX", b"50"],
            [b"dm.lock", b"h", b"l2", b"0.01", b"EX", b"0.05"], [b"dm.unlock", b"h", b"l1", tokhex],
            [b"dm.locklease", b"h", b"l1", tokhex, b"1"], [b"dm.plocklease", b"h", b"l1", tokhex, b"100"],
            [b"internal.node.lengthofpart", b"0", b"RC"], [b"stats", b"CR"], [b"ping", b"x"],
            [b"cluster.routingtable"], [b"cluster.members"], [b"publish", b"ch", b"m"], [b"publish.internal", b"ch", b"m"],
            [b"pubsub", b"channels", b"*"], [b"pubsub", b"numsub", b"ch"], [b"pubsub", b"numpat"],
        ]
        subst = NUM + [b"h", b"*", b"[", b"\xff\x00", b"RC", b"COUNT"]
        for sk in skeletons:
            yield "c.rawcmd %d %s" % (r.randrange(2), " ".join(hx(t) for t in sk))
            for pos in range(1, len(sk)):
                for tok in subst:
                    if sk[0] == b"dm.lock" and pos == 3 and tok not in (b"0", b"-1", b"abc", b"", b"-0.5", b"1.5"):
                        continue      # the deadline: DM.LOCK legitimately blocks that many seconds on a held lock
                    v = list(sk)
                    v[pos] = tok
                    yield "c.rawcmd %d %s" % (r.randrange(2), " ".join(hx(t) for t in v))
                    if self.tier != "quick" or r.random() < 0.3:
                        # ... and once more with a PING behind it on the same connection: one reply per command
                        yield "c.rawframe %d %s" % (r.randrange(2), " ".join(hx(t) for t in v))
            orc.hit("skeleton_mutations")
            yield "c.get cli 0 h %s" % hx(b"k2")
        # the one internal command whose payload is a structure of its own: well formed on the wire, nonsense inside
        for variant in ("oob", "nilroute", "empty"):
            for m in (1, 0):
                yield "c.badrouting %d %s" % (m, variant)
                yield "c.get cli %d h %s" % (1 - m, hx(b"k1"))
                yield "c.get cli %d h %s" % (m, hx(b"k2"))
        for variant in ("offset", "hkey", "vlen", "short"):
            m = r.randrange(2)
            yield "c.badfragment %d %s" % (m, variant)
            yield "c.get cli %d h %s" % (1 - m, hx(b"k1"))
            yield "c.get cli %d h %s" % (m, hx(b"k2"))
        # what a connection remembers: subscriber mode.  Every short sequence of (un)subscriptions - held, not held, held by
        # ANOTHER connection, the other kind, none, empty - and of commands that are not allowed in that mode, over one connection
        yield "c.rawseq 1 %s | %s" % (" ".join(hx(t) for t in [b"subscribe", b"other"]), " ".join(hx(t) for t in [b"psubscribe", b"o*"]))
        sub_cmds = [[b"subscribe", b"a"], [b"psubscribe", b"a*"], [b"subscribe", b"a", b"b"], [b"unsubscribe", b"a"], [b"unsubscribe", b"zz"],
                    [b"unsubscribe", b"other"], [b"unsubscribe", b"a*"], [b"punsubscribe", b"a*"], [b"punsubscribe", b"a"], [b"punsubscribe", b"o*"],
                    [b"punsubscribe", b"["], [b"unsubscribe"], [b"punsubscribe"], [b"unsubscribe", b""], [b"subscribe"], [b"psubscribe", b"["],
                    [b"ping"], [b"ping", b"x", b"y"], [b"quit"], [b"dm.get", b"h", b"k1"], [b"publish", b"a", b"m"], [b"pubsub", b"numsub", b"a"],
                    [b"nosuchcommand"], [b"subscribe", b"\xff\x00"], [b"unsubscribe", b"a", b"a"]]
        first = [[b"subscribe", b"a"], [b"psubscribe", b"a*"], [b"subscribe", b"a", b"b"]]
        for f0 in first:
            for c1 in sub_cmds:
                for c2 in (sub_cmds if self.tier != "quick" or r.random() < 0.25 else [r.choice(sub_cmds)]):
                    seq = [f0, c1, c2]
                    yield "c.rawseq %d %s" % (r.randrange(2), " | ".join(" ".join(hx(t) for t in c) for c in seq))
            orc.hit("subscriber_mode_sequences")
            yield "c.get cli 0 h %s" % hx(b"k1")
        # values whose entry (29 bytes of metadata + key + value) is just below, at and just above the table size (4096): stored
        # or refused with the documented error - an answer either way, and the member goes on serving
        for cmd in (b"dm.put", b"dm.getput"):
            for d in (-60, -30, -29, -28, -3, -1, 0, 1, 29, 30, 100):
                key = b"big%d" % (d + 100)
                val = b"S" * (4096 - 29 - len(key) + d)
                m = r.randrange(2)
                yield "c.rawcmd %d %s" % (m, " ".join(hx(t) for t in [cmd, b"h", key, val]))
                yield "c.rawframe %d %s" % (m, " ".join(hx(t) for t in [cmd, b"h", key + b"f", val]))
                yield "c.get cli %d h %s" % (1 - m, hx(b"k1"))
                orc.hit("entry_size_around_table_size")
        # raw entries that are not encoded entries: stored verbatim by DM.PUTENTRY, then read back
        for j in range(40):
            key = b"p%d" % j
            n = r.choice([0, 1, 2, 5, 28, 29, 30, 31, 40])
            blob = bytes(r.choice([0, 1, 3, 255, 200]) for _ in range(n))
            m = r.randrange(2)
            yield "c.rawcmd %d %s" % (m, " ".join(hx(t) for t in [b"dm.putentry", b"h", key, blob]))
            yield "c.rawcmd %d %s" % (m, " ".join(hx(t) for t in [b"dm.getentry", b"h", key, b"RC"]))
            yield "c.rawcmd %d %s" % (m, " ".join(hx(t) for t in [b"dm.get", b"h", key]))
            yield "c.rawcmd %d %s" % (1 - m, " ".join(hx(t) for t in [b"dm.get", b"h", key]))
            orc.hit("malformed_raw_entry")
        yield "c.rawcmd 0 %s" % " ".join(hx(t) for t in [b"dm.scan", b"0", b"h", b"0", b"RC"])
        yield "c.get cli 0 h %s" % hx(b"k1")
