"""Stream `cluster`: sequential DMap operations on a real in-process cluster (stable membership),
through every client path and entry member, white-box copies read after every mutation.
Oracles (on the implementation only): a per-key register (C01 sequential part, C09, C15) and
"every backup copy mirrors the primary" (C04)."""
import random

T0 = 1_700_000_000_000_000_000
HEADER = 3


def hx(b):
    return b.hex() if b else "-"


PATHS = ["emb", "cli", "raw", "pipe"]


def _exact_seconds(ms):
    """is a duration / instant of `ms` milliseconds carried exactly as float seconds (Duration.Seconds()
    on the sender, float64 * 1e9 on the receiver)?  Only such values are used for EX / EXAT, so that the
    comparison never depends on float rounding."""
    ns = ms * 1_000_000
    sec, nsec = divmod(ns, 1_000_000_000)
    f = float(sec) + float(nsec) / 1e9
    f2 = float(repr(f))
    return int(f2 * 1e9) == ns and int((ms / 1000.0) * 1e9) == ns


EX_MS = [ms for ms in (250, 500, 750, 900, 1000, 1250, 1500, 1900, 2000, 2500, 60000) if _exact_seconds(ms)]


class Oracle:
    def __init__(self):
        self.ref = {}
        self.now = T0
        self.n = 1
        self.cfg = {}
        self.route = {}
        self.shapes = {}
        self.last_mut = None

    def hit(self, s):
        self.shapes[s] = self.shapes.get(s, 0) + 1

    def live(self, dk):
        c = self.ref.get(dk)
        if c is None:
            return None
        if c[1] != 0 and self.now // 1_000_000 >= c[1]:
            return None
        return c

    def ttl_of(self, opts, default_ms=0):
        nowms = self.now // 1_000_000
        i = 0
        while i < len(opts):
            o = opts[i].upper()
            if o in ("EX", "PX"):
                return nowms + int(opts[i + 1])
            if o in ("EXAT", "PXAT"):
                return int(opts[i + 1])
            i += 1
        if default_ms:
            return nowms + default_ms
        return 0

    def observe(self, op, reply):
        f = op.split()
        name, a = f[0], f[1:]
        if reply.startswith("err:") or reply in ("bad-op", "no-cluster", "down") or reply.startswith("other:") or reply == "neterr":
            return "unexpected reply %r to %s" % (reply[:200], op[:100])
        if name == "clock":
            self.now = int(a[0])
            return None
        if name == "c.new":
            self.cfg = dict(kv.split("=") for kv in a if "=" in kv)
            self.n = int(self.cfg.get("n", 1))
            self.ref = {}
            return None
        if name == "c.own":
            pb = reply.split("pick=")[1].split()[0]
            p, b = pb.split("/")
            self.route[(a[0], a[1])] = ([int(x) for x in p.split(",")] if p != "-" else [], [int(x) for x in b.split(",")] if b != "-" else [])
            return None
        if name in ("watchdog",):
            return None
        dttl = int(self.cfg.get("ttl_ms", 0))
        if len(a) > 2 and self.cfg.get("cdm") == a[2] and "cttl_ms" in self.cfg:
            dttl = int(self.cfg["cttl_ms"])          # this DMap has its own default TTL
            self.hit("custom_dmap_ttl")
        if name == "c.put":
            path, m, dm, key, val = a[0], a[1], a[2], a[3], a[4]
            opts = a[5:]
            dk = (dm, key)
            cur = self.live(dk)
            up = [o.upper() for o in opts]
            if "NX" in up and cur is not None:
                exp = "keyfound"
            elif "XX" in up and cur is None:
                exp = "nf"
            else:
                exp = "ok"
                self.ref[dk] = [val, self.ttl_of(opts, dttl), self.now]
                if up:
                    self.hit("put_with_options")
                if ("NX" in up or "XX" in up) and any(x in up for x in ("EX", "PX", "EXAT", "PXAT")):
                    self.hit("put_cond_and_ttl")
            self.last_mut = dk
            if reply != exp:
                return "put %s via %s/m%s: %s, expected %s" % (" ".join(opts), path, m, reply, exp)
            return None
        if name in ("c.get", "c.getx"):
            dk = (a[2], a[3])
            cur = self.live(dk)
            if cur is None:
                if self.ref.get(dk) is not None:
                    self.hit("read_after_expiry")
                return None if reply == "nf" else "get via %s/m%s: absent/expired key returned %s" % (a[0], a[1], reply[:80])
            self.hit("read_from_" + ("owner" if int(a[1]) == (self.route.get(dk, ([0], []))[0] or [0])[-1] else "non_owner"))
            if name == "c.get":
                return None if reply == cur[0] else "get via %s/m%s: %s, last written %s" % (a[0], a[1], reply[:80], cur[0][:80])
            r = reply.split()
            if r[0] != cur[0] or r[1] != "ttl=%d" % cur[1]:
                return "get via %s/m%s: %s, expected %s ttl=%d" % (a[0], a[1], reply[:100], cur[0][:60], cur[1])
            return None
        if name == "c.del":
            keys = a[3:]
            for k in keys:
                self.ref.pop((a[2], k), None)
            self.last_mut = (a[2], keys[-1])
            if len(keys) > 1:
                self.hit("multi_key_delete")
            return None if reply == str(len(keys)) else "delete of %d keys via %s/m%s returned %s" % (len(keys), a[0], a[1], reply)
        if name == "c.expire":
            dk = (a[2], a[3])
            cur = self.live(dk)
            self.last_mut = dk
            if cur is None:
                return None if reply == "nf" else "expire via %s/m%s on an absent/expired key: %s" % (a[0], a[1], reply)
            ms = int(a[4]) or dttl
            cur[1] = self.now // 1_000_000 + ms if ms else 0
            cur[2] = self.now
            self.hit("expire_present")
            return None if reply == "ok" else "expire via %s/m%s: %s" % (a[0], a[1], reply)
        if name == "c.pipeline":
            reply, _, life = reply.partition(" life=")
            cmds = a[3:]
            # life cycle: a future before Exec, a second Exec, Discard, a future of the discarded generation, Exec of the
            # empty re-usable pipeline, then Exec and Discard of the closed one (Props/C15: C15_pipeline_lifecycle)
            want = "notReady,executed,none,closed,none,closed,closed" if cmds else "-,executed,none,-,none,closed,closed"
            if not reply.startswith("exec:"):
                if life != want:
                    return "pipeline life cycle answered %s, expected %s" % (life, want)
                self.hit("pipeline_lifecycle")
            outs = reply.split("|")
            if reply.startswith("exec:") or len(outs) != len(cmds):
                return "pipeline of %d commands answered %s" % (len(cmds), reply[:120])
            self.hit("pipeline_multi")
            for c, got in zip(cmds, outs):
                f = c.split(":")
                sub = {"put": "c.put", "get": "c.get", "getput": "c.getput", "del": "c.del", "incr": "c.incr", "decr": "c.decr",
                       "expire": "c.expire"}[f[0]]
                msg = self.observe("%s pipe %s %s %s" % (sub, a[1], a[2], " ".join(f[1:])), got)
                if msg:
                    return "pipeline future %s: %s" % (c[:40], msg)
            kinds = [c.split(":")[0] for c in cmds]
            if kinds.count("getput") >= 2:
                self.hit("pipeline_two_getputs")
            return None
        if name == "c.getput":
            dk = (a[2], a[3])
            cur = self.live(dk)
            exp = cur[0] if cur is not None else "none"
            self.ref[dk] = [a[4], self.ttl_of([], dttl), self.now]
            self.last_mut = dk
            self.hit("getput")
            return None if reply == exp else "getput via %s/m%s returned %s, previous value %s" % (a[0], a[1], reply[:60], exp[:60])
        if name in ("c.incr", "c.decr"):
            dk = (a[2], a[3])
            cur = self.live(dk)
            base, ttl = 0, 0
            if cur is not None:
                try:
                    txt = bytes.fromhex(cur[0]).decode() if cur[0] != "-" else ""
                    base = int(txt) if txt.lstrip("+-").isdigit() else 0
                    ttl = cur[1] if txt.lstrip("+-").isdigit() else 0
                except Exception:
                    base, ttl = 0, 0
                if cur[1]:
                    self.hit("incr_keeps_ttl")
            delta = int(a[4]) if name == "c.incr" else -int(a[4])
            new = base + delta
            self.ref[dk] = [str(new).encode().hex(), ttl if ttl else self.ttl_of([], dttl), self.now]
            self.last_mut = dk
            self.hit("incr_decr")
            if new < 0:
                self.hit("negative_counter")
            return None if reply == str(new) else "%s via %s/m%s returned %s, expected %d" % (name[2:], a[0], a[1], reply, new)
        if name == "c.lock":
            dk = (a[2], a[3])
            cur = self.live(dk)
            if cur is not None:
                self.hit("lock_contended")
                return None if reply == "notacquired" else "lock on a held key via %s/m%s: %s" % (a[0], a[1], reply)
            if not reply.startswith("tok"):
                return "lock on a free key via %s/m%s: %s" % (a[0], a[1], reply)
            to = int(a[4]) or dttl          # a DMap-wide default TTL applies to lock entries like to any entry
            self.ref[dk] = ["T:" + reply, (self.now // 1_000_000 + to) if to else 0, self.now]
            self.tokpath = getattr(self, "tokpath", {})
            self.tokpath[reply] = a[0]
            self.hit("lock_acquired" + ("_with_timeout" if to else ""))
            if int(a[1]) != (self.route.get(dk, ([0], []))[0] or [0])[-1] and to:
                self.hit("timed_lock_via_non_owner")
            return None
        if name in ("c.unlock", "c.lease"):
            dk = (a[2], a[3])
            cur = self.live(dk)
            good = cur is not None and cur[0] == "T:" + a[4]
            if not good:
                self.hit("wrong_token")
                return None if reply == "nolock" else "%s with a token that is not the holder's via %s/m%s: %s" % (name[2:], a[0], a[1], reply)
            if name == "c.unlock":
                self.ref.pop(dk, None)
            else:
                ms = int(a[5]) or dttl
                cur[1] = self.now // 1_000_000 + ms if ms else 0
                cur[2] = self.now
                self.hit("lease_ok")
            return None if reply == "ok" else "%s with the holder's token via %s/m%s: %s" % (name[2:], a[0], a[1], reply)
        if name == "c.destroy":
            for dk in [x for x in self.ref if x[0] == a[2]]:
                self.ref.pop(dk)
            self.hit("destroy")
            return None if reply == "ok" else "destroy: %s" % reply
        if name == "wb.keys":
            present = set(k for (d, k) in self.ref if d == a[0])
            for part in reply.split():
                mi, rest = part.split(":", 1)
                p, b = rest.split(";")
                for kind, lst in (("primary", p[2:]), ("backup", b[2:])):
                    for k in ([] if lst == "-" else lst.split(",")):
                        if k not in present:
                            return "%s holds a %s entry %s of DMap %s that should not exist (destroyed or deleted)" % (mi, kind, k, a[0])
            self.hit("wb_keys_checked")
            return None
        if name == "c.rawscan":
            import re
            pat = None if a[1] == "*" else re.compile(bytes.fromhex(a[1]).decode())

            def rmatches(k):
                return pat is None or pat.search(bytes.fromhex(k).decode("latin-1") if k != "-" else "") is not None
            must = set(k for (d, k) in self.ref if d == a[0] and self.live((d, k)) is not None and rmatches(k))
            may = set(k for (d, k) in self.ref if d == a[0] and rmatches(k))
            if not reply.startswith("n="):
                return "raw DM.SCAN walk over %s (match %s, count %s): %s" % (a[0], a[1], a[2], reply[:80])
            got = reply.split()[1:]
            if len(a) > 3 and a[3] == "rc" and int(self.cfg.get("r", 1)) < 2:
                return None
            if not must <= set(got) or not set(got) <= may:
                return "raw DM.SCAN cursors over every partition of %s (%s, match %s, count %s) yielded %s, present keys %s" % (
                    a[0], "backup copies" if len(a) > 3 else "primary copies", a[1], a[2], sorted(set(got))[:12], sorted(must)[:12])
            self.hit("raw_scan_replica" if len(a) > 3 else "raw_scan_checked")
            return None
        if name == "c.rawframe":
            # a command and a PING behind it on one connection: whatever the command is answered (value or error), the next
            # reply belongs to the PING - through a pipeline or a hand-written client every later result depends on it
            self.hit("one_reply_per_command")
            if " second=+PONG extra=0" not in reply:
                return "one connection, %s followed by PING: %s - the command was answered twice or not at all" % (
                    bytes.fromhex(a[1]).decode("latin1").upper(), reply[:120])
            return None
        if name == "c.scanall":
            import re
            pat = None if len(a) < 4 or a[3] == "*" else re.compile(bytes.fromhex(a[3]).decode())

            def matches(k):
                return pat is None or pat.search(bytes.fromhex(k).decode("latin-1") if k != "-" else "") is not None
            # every live key (matching the pattern) exactly once; an expired entry that no scan has removed yet may show up
            must = sorted(k for (d, k) in self.ref if d == a[2] and self.live((d, k)) is not None and matches(k))
            may = set(k for (d, k) in self.ref if d == a[2] and matches(k))
            got = reply.split()[1:]
            if len(set(got)) != len(got):
                return "iterator over %s via %s/m%s yielded a key twice: %s" % (a[2], a[0], a[1], sorted(got)[:12])
            if not set(must) <= set(got) or not set(got) <= may:
                return "iterator over %s via %s/m%s (match %s, count %s) yielded %s, present keys %s" % (
                    a[2], a[0], a[1], a[3] if len(a) > 3 else "*", a[4] if len(a) > 4 else "default", sorted(got)[:12], must[:12])
            tok = reply.split()[0] if reply else ""
            if "reqs=" in tok:
                # every owner of a partition is walked once: at most (entries + tables + 1) requests per owner and partition
                reqs = int(tok.split("reqs=")[1])
                nk = len([1 for (d, k) in self.ref if d == a[2]])
                bound = 4 * nk * max(self.n, 1) + 6 * int(self.cfg.get("parts", 7)) * max(self.n, 1) + 50
                self.hit("iterator_requests_bounded")
                if reqs > bound:
                    return ("iterator over %s via %s/m%s needed %d scan requests for %d keys on %d members, %s partitions (at most %d when every "
                            "owner of a partition is walked once): owners that were finished are asked again" % (
                                a[2], a[0], a[1], reqs, nk, self.n, self.cfg.get("parts", "7"), bound))
            self.hit("iterator_checked")
            if pat is not None:
                self.hit("iterator_match" if must else "iterator_match_nothing")
            if len(a) > 4 and a[4] == "1" and len(must) >= 2:
                self.hit("iterator_count_1")
            return None
        if name == "wb":
            dk = (a[0], a[1])
            route = self.route.get(dk)
            if route is None:
                return None
            prims, baks = route
            owner = prims[-1]
            copies = {}
            for part in reply.split():
                mi, rest = part.split(":", 1)
                if rest == "down":
                    continue
                p, b = rest.split(",")
                copies[int(mi[1:])] = (p[2:], b[2:])
            ref = self.ref.get(dk)
            if ref is not None and ref[0].startswith("T:"):
                ref = None if False else [copies[owner][0].split("/")[0], ref[1], ref[2]]   # token bytes are random
            pc = copies[owner][0]
            if ref is None:
                if pc != "-":
                    return "deleted key still has a primary copy %s on m%d" % (pc[:60], owner)
            else:
                pv = pc.split("/")
                expired = ref[1] != 0 and self.now // 1_000_000 >= ref[1]
                if pc == "-" and expired:
                    self.hit("expired_entry_evicted")       # the background scan (or a read) removed it, here and on the backups
                elif pc == "-" or pv[0] != ref[0] or int(pv[1]) != ref[1]:
                    return "primary copy on m%d is %s, last acknowledged write (%s, ttl %d)" % (owner, pc[:80], ref[0][:60], ref[1])
            if int(self.cfg.get("r", 1)) > 1:
                for b in baks:
                    self.hit("mirror_checked")
                    if copies[b][1] != pc:
                        return "backup copy on m%d is %s but the primary copy on m%d is %s" % (b, copies[b][1][:80], owner, pc[:80])
            for m, (p, b) in copies.items():
                if m != owner and m not in prims and p != "-" and ref is None:
                    return "stray primary copy on m%d" % m
            return None
        return None


class Gen:
    def __init__(self, rng, tier="quick"):
        self.rng = rng
        self.tier = tier
        self.now = T0

    def tick(self, ms=None):
        self.now += (ms if ms is not None else self.rng.choice([1, 5, 50, 500, 5000])) * 1_000_000
        return "clock %d" % self.now

    def episode(self, orc, nops):
        r = self.rng
        n = r.choice([1, 2, 3, 3])
        R = r.choice([1, 2, 2, 3]) if n >= 2 else 1
        R = min(R, n)
        W = r.randint(1, R)
        RQ = r.randint(1, R)
        ttl = r.choice([0, 0, 0, 3000])
        yield "watchdog 60s"
        yield "clock %d" % self.now
        tsize = r.choice([512, 512, 4096, 1 << 20])
        if getattr(self, "ep", None) is not None:
            # every other episode of a run has small tables, whatever the other choices are
            tsize = 512 if self.ep % 2 == 0 else r.choice([4096, 1 << 20])
        # small tables + few partitions: fragments span several tables, keys live in older tables
        parts = r.choice([3, 3, 7]) if tsize == 512 else r.choice([7, 23])
        dms = getattr(self, "dms", ["dm", "a.b", "dm2"])      # a DMap name may contain dots
        # one DMap may have its own default TTL (config.DMaps.Custom)
        custom = " cdm=%s cttl_ms=%d%s" % (dms[-1], r.choice([0, 1500, 3000]), r.choice(["", " cnoeng=1"])) if r.random() < 0.3 else ""
        yield "c.new n=%d r=%d w=%d rq=%d parts=%d tsize=%d rr=%d ttl_ms=%d%s" % (
            n, R, W, RQ, parts, tsize, r.choice([0, 0, 1]), ttl, custom)
        keys = getattr(self, "keyset", None) or [b"k%d" % i for i in range(r.choice([2, 4, 8]))]
        if not getattr(self, "keyset", None) and r.random() < 0.25:
            keys = keys + [b"K" * 255]          # the longest key the store takes (the length is kept in one byte)
        pdestroy = getattr(self, "pdestroy", 0.005)
        ver = 0
        if tsize == 512 and not getattr(self, "keyset", None):
            # directed: fragments of several tables whose EARLIER tables yield nothing to a scan - every entry in them was
            # overwritten (no compaction yet), or none matches the pattern: a page may come back empty with a cursor that
            # is not 0, the iteration goes on to the later tables
            dk = [b"s%02d" % i for i in range(18)]
            for k in dk:
                yield "c.own dm %s" % hx(k)
                ver += 1
                yield "c.put emb %d dm %s %s" % (r.randrange(n), hx(k), hx(b"v%d" % ver + b"x" * 180))
            for k in dk[:14]:
                yield "c.own dm %s" % hx(k)
                ver += 1
                yield "c.put emb %d dm %s %s" % (r.randrange(n), hx(k), hx(b"v%d" % ver + b"x" * 180))
            for pat in ("*", hx(b"^s1[4-7]$"), hx(b"^s05$")):
                yield "c.scanall %s %d dm %s %d" % (r.choice(["emb", "cli"]), r.randrange(n), pat, r.choice([1, 2, 100]))
            yield "c.rawscan dm %s %d" % (hx(b"^s1[4-7]$"), r.choice([1, 100]))
        for _ in range(nops):
            dm = r.choice(dms)
            key = hx(r.choice(keys))
            path = r.choice(PATHS)
            m = r.randrange(n)
            yield "c.own %s %s" % (dm, key)
            if r.random() < 0.05:
                # a full iteration with the client iterator: every page size, with and without a pattern
                pat = r.choice(["*", "*", hx(b"^k[0-3]$"), hx(b"k1"), hx(b"zzz"), hx(b"^(k0|ctr)")])
                if r.random() < 0.6:
                    yield "c.scanall %s %d %s %s %d" % (r.choice(["emb", "cli"]), r.randrange(n), dm, pat, r.choice([1, 1, 2, 3, 10, 1000]))
                else:
                    # the same with raw DM.SCAN cursors, partition by partition, on the primary copies or (RC) the backup copies
                    yield "c.rawscan %s %s %d%s" % (dm, pat, r.choice([1, 1, 2, 3, 10, 1000]), " rc" if R > 1 and r.random() < 0.4 else "")
            if r.random() < 0.04:
                # the background workers run at any moment: expired entries are removed by the eviction scan (on the owner and
                # its backups), tables are compacted, empty fragments are dropped - no operation may notice
                bg = r.choice(["bg.evict", "bg.evict", "bg.compact", "bg.janitor"])
                yield bg
                if bg == "bg.evict":
                    # what the scan removed is gone from the primary and from every backup copy
                    for d2 in dms:
                        for k2 in keys:
                            yield "wb %s %s" % (d2, hx(k2))
            if r.random() < 0.04:
                # write commands that the owner REFUSES (entry larger than a table, unknown key) or answers without
                # changing anything, each with a PING behind it on the same connection
                big = b"B" * (tsize + 64)
                cands = ([[b"dm.getput", dm.encode(), b"zz-frame", big], [b"dm.put", dm.encode(), b"zz-frame", big]] * 2 if tsize <= 4096 else []) + [
                         [b"dm.expire", dm.encode(), b"zz-nokey", b"10"], [b"dm.get", dm.encode(), b"zz-nokey"],
                         [b"dm.getentry", dm.encode(), b"zz-nokey"], [b"dm.del", dm.encode(), b"zz-nokey"]]
                yield "c.rawframe %d %s" % (r.randrange(n), " ".join(hx(t) for t in r.choice(cands)))
            w = r.random()
            if w < 0.35:
                ver += 1
                val = hx(b"v%d" % ver + b"x" * r.choice([0, 10, 100, 200])) if r.random() > 0.08 else hx(b"")     # the empty value is a value
                if r.random() < 0.08:
                    # arbitrary bytes: line ends, NUL, bytes that are not UTF-8, protocol look-alikes
                    val = hx(r.choice([b"line one\r\nline two\r\n", b"\n", b"\r", b"\x00\xff\xfe", b"$-1\r\n", b"+OK\r\n", b"*2\r\n$1\r\na"]) + b"%d" % ver)
                if tsize <= 4096 and r.random() < 0.05:
                    # the largest entries a table takes: 29 + key + value just below the table size, on primary and backups alike
                    klen = len(bytes.fromhex(key)) if key != "-" else 0
                    val = hx(bytes([66 + ver % 20]) * (tsize - 29 - klen - r.choice([1, 2, 28, 29, 40])))
                opts = []
                c = r.random()
                if c < 0.2:
                    opts.append("NX")
                elif c < 0.4:
                    opts.append("XX")
                t = r.random()
                if t < 0.12:
                    opts += ["EX", str(r.choice(EX_MS))]      # fractional seconds too, but only float-exact ones
                elif t < 0.24:
                    opts += ["PX", str(r.choice([1, 50, 500, 3000]))]
                elif t < 0.32:
                    cand = [(self.now // 1_000_000_000 + d) * 1000 + f for d in (1, 4) for f in (0, 500)]
                    cand = [x for x in cand if _exact_seconds(x)] or [(self.now // 1_000_000_000 + 1) * 1000]
                    opts += ["EXAT", str(r.choice(cand))]
                elif t < 0.40:
                    opts += ["PXAT", str(self.now // 1_000_000 + r.choice([-5, 7, 700]))]
                r.shuffle(opts) if len(opts) == 1 else None
                yield "c.put %s %d %s %s %s %s" % (path, m, dm, key, val, " ".join(opts))
                yield "wb %s %s" % (dm, key)
            elif w < 0.60:
                if path in ("emb", "cli") and r.random() < 0.5:
                    yield "c.getx %s %d %s %s" % (path, m, dm, key)
                else:
                    yield "c.get %s %d %s %s" % (path, m, dm, key)
            elif w < 0.72:
                ks = [key]
                if r.random() < 0.4:
                    extra = [hx(k) for k in r.sample(keys, min(len(keys), r.randint(1, 3)))]
                    for k in extra:
                        if k not in ks:
                            ks.append(k)
                            yield "c.own %s %s" % (dm, k)
                yield "c.del %s %d %s %s" % (path if path != "pipe" or len(ks) == 1 else "cli", m, dm, " ".join(ks))
                for k in ks:
                    yield "wb %s %s" % (dm, k)
            elif w < 0.80:
                yield "c.expire %s %d %s %s %d" % (path, m, dm, key, r.choice([0, 1, 100, 2000, 50000]))
                yield "wb %s %s" % (dm, key)
            elif w < 0.84:
                ver += 1
                yield "c.getput %s %d %s %s %s" % (path if path != "pipe" else "emb", m, dm, key, hx(b"g%d" % ver))
                yield "wb %s %s" % (dm, key)
            elif w < 0.89:
                ckey = hx(b"ctr%d" % r.randrange(2))
                yield "c.own %s %s" % (dm, ckey)
                if r.random() < 0.15:
                    yield "c.put %s %d %s %s %s PX %d" % (r.choice(["emb", "cli"]), m, dm, ckey, hx(str(r.randint(-5, 50)).encode()), r.choice([2000, 60000]))
                yield "c.%s %s %d %s %s %d" % (r.choice(["incr", "incr", "decr"]), path if path != "pipe" else "cli", m, dm, ckey, r.choice([1, 2, 7, 100]))
                yield "wb %s %s" % (dm, ckey)
            elif w < 0.95:
                lkey = hx(b"lock%d" % r.randrange(2))
                yield "c.own %s %s" % (dm, lkey)
                lp = path if path != "pipe" else "raw"
                c = r.random()
                cur = orc.live((dm, lkey))
                if c < 0.45:
                    yield "c.lock %s %d %s %s %d %d" % (lp, m, dm, lkey, r.choice([0, 0, 300, 2000]), 15)
                else:
                    # the holder's own token travels the way it was obtained (an API LockContext knows its
                    # key; a raw token is sent with an explicit key); anything else is a forged token over RESP
                    tok = "forged"
                    if cur is not None and cur[0].startswith("T:") and r.random() < 0.7:
                        tok = cur[0][2:]
                        was = getattr(orc, "tokpath", {}).get(tok, "raw")
                        lp = "raw" if was == "raw" else r.choice(["emb", "cli"])
                    else:
                        lp = "raw"
                    if c < 0.75:
                        yield "c.unlock %s %d %s %s %s" % (lp, m, dm, lkey, tok)
                    else:
                        yield "c.lease %s %d %s %s %s %d" % (lp, m, dm, lkey, tok, r.choice([100, 5000]))
            elif w < 0.95 + pdestroy:
                dd = r.choice(dms)
                again = r.random() < 0.5
                yield "c.destroy %s %d %s%s" % (r.choice(["emb", "cli", "raw"]), m, dd, "" if again else r.choice(["", " fresh"]))
                yield "wb.keys %s" % dd
                if again:
                    # the application goes on writing through its long-lived handle on the owner (no request for
                    # this DMap reaches that member over the wire), then the DMap is destroyed once more from elsewhere
                    owners = set()
                    for _ in range(r.randint(1, 3)):
                        k3 = hx(r.choice(keys))
                        rep = yield "c.own %s %s" % (dd, k3)
                        o3 = int(rep.split("pick=")[1].split()[0].split("/")[0].split(",")[-1])
                        owners.add(o3)
                        yield "c.put emb %d %s %s %s" % (o3, dd, k3, hx(b"again"))
                    others = [x for x in range(n) if x not in owners] or list(range(n))
                    yield "c.destroy %s %d %s" % (r.choice(["emb", "cli"]), r.choice(others), dd)
                    yield "wb.keys %s" % dd
                yield "c.scanall %s %d %s" % (r.choice(["emb", "cli"]), r.randrange(n), dd)
                # the DMap stays usable
                k2 = hx(r.choice(keys))
                yield "c.own %s %s" % (dd, k2)
                yield "c.put %s %d %s %s %s" % (r.choice(["emb", "cli"]), r.randrange(n), dd, k2, hx(b"after"))
                yield "c.get %s %d %s %s" % (r.choice(["emb", "cli", "raw"]), r.randrange(n), dd, k2)
            elif w < 0.985 + pdestroy:
                # several commands queued in one pipeline, one Exec, then every future read back
                cmds = []
                for _ in range(r.randint(2, 7)):
                    k = hx(r.choice(keys))
                    yield "c.own %s %s" % (dm, k)
                    ver += 1
                    c = r.random()
                    if c < 0.3:
                        cmds.append("put:%s:%s" % (k, hx(b"p%d" % ver)))
                    elif c < 0.55:
                        cmds.append("getput:%s:%s" % (k, hx(b"q%d" % ver + b"y" * r.choice([0, 30]))))
                    elif c < 0.75:
                        cmds.append("get:%s" % k)
                    elif c < 0.85:
                        cmds.append("del:%s" % k)
                    else:
                        cmds.append("expire:%s:%d" % (k, r.choice([100, 5000])))
                yield "c.pipeline %s %d %s %s" % (r.choice(["cli", "emb"]), m, dm, " ".join(cmds))
                for c in cmds:
                    yield "wb %s %s" % (dm, c.split(":")[1])
            else:
                yield self.tick()


REQUIRED_SHAPES = ["raw_scan_checked", "iterator_checked", "iterator_match", "iterator_count_1", "custom_dmap_ttl", "pipeline_multi", "pipeline_two_getputs", "pipeline_lifecycle", "incr_decr", "getput", "lock_acquired", "lock_contended", "wrong_token", "mirror_checked", "put_cond_and_ttl", "expire_present", "multi_key_delete", "read_after_expiry",
                   "read_from_non_owner"]
