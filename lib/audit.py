"""Lean side of a check: build the property module, audit axioms and forbidden constructs."""
import os
import re
import subprocess
import time

from build import LEAN, run

ALLOWED_AXIOMS = {"propext", "Classical.choice", "Quot.sound"}
FORBIDDEN = re.compile(r"\b(sorry|admit|native_decide|bv_decide|implemented_by|unsafe)\b|^\s*axiom\s|maxHeartbeats\s+0")


def strip_comments(src):
    # remove /- ... -/ (nesting ignored; good enough for our files) and -- line comments
    src = re.sub(r"/-.*?-/", "", src, flags=re.S)
    src = re.sub(r"--.*", "", src)
    return src


def import_closure(module):
    """local (OlricModel.*) modules imported, transitively."""
    seen, todo = [], [module]
    while todo:
        m = todo.pop()
        if m in seen:
            continue
        seen.append(m)
        path = os.path.join(LEAN, *m.split(".")) + ".lean"
        if not os.path.exists(path):
            continue
        for line in open(path):
            mm = re.match(r"\s*import\s+(OlricModel\S*)", line)
            if mm:
                todo.append(mm.group(1))
    return seen


def theorems_of(module):
    """fully qualified names of the theorems declared in a Props module."""
    path = os.path.join(LEAN, *module.split(".")) + ".lean"
    src = strip_comments(open(path).read())
    ns = []
    names = []
    for line in src.splitlines():
        m = re.match(r"\s*namespace\s+(\S+)", line)
        if m:
            ns.append(m.group(1))
            continue
        m = re.match(r"\s*end\s+(\S+)", line)
        if m and ns and ns[-1].endswith(m.group(1).split(".")[-1]):
            ns.pop()
            continue
        m = re.match(r"\s*(?:private\s+)?theorem\s+([^\s:({\[]+)", line)
        if m:
            names.append(".".join(ns + [m.group(1)]))
    return names


def audit(module, workdir, leanchecker=False):
    from build import lean_lock
    with lean_lock():
        return _audit(module, workdir, leanchecker)


def _audit(module, workdir, leanchecker=False):
    """Returns dict(ok, obligations, discharged, axioms{thm: [...]}, problems[...], build_output)."""
    t0 = time.time()
    res = {"module": module, "ok": False, "obligations": 0, "discharged": 0, "axioms": {}, "problems": [],
           "theorems": []}
    thms = theorems_of(module)
    res["theorems"] = thms
    res["obligations"] = len(thms)
    # forbidden constructs in the import closure
    for m in import_closure(module):
        path = os.path.join(LEAN, *m.split(".")) + ".lean"
        if os.path.exists(path):
            for i, line in enumerate(strip_comments(open(path).read()).splitlines()):
                if FORBIDDEN.search(line):
                    res["problems"].append("forbidden construct in %s: %s" % (m, line.strip()[:100]))
    p = run(["lake", "build", module], cwd=LEAN, check=False, timeout=3000)
    res["build_output"] = p.stdout[-6000:]
    if p.returncode != 0:
        # which theorems still check?  A failed module gives no olean; report the errors.
        errs = re.findall(r"error: ([^\n]*\.lean:\d+:\d+: [^\n]*)", p.stdout)
        res["problems"].append("lake build %s failed: %s" % (module, "; ".join(errs[:5]) or p.stdout[-500:]))
        res["wall_s"] = round(time.time() - t0, 1)
        return res
    aud = os.path.join(workdir, "Audit_%s.lean" % module.replace(".", "_"))
    with open(aud, "w") as fh:
        fh.write("import %s\n" % module)
        for t in thms:
            fh.write("#print axioms %s\n" % t)
    p = run(["lake", "env", "lean", aud], cwd=LEAN, check=False, timeout=3000)
    out = p.stdout
    for t in thms:
        m = re.search(r"'%s' depends on axioms: \[([^\]]*)\]" % re.escape(t), out)
        if m:
            axs = [a.strip() for a in m.group(1).replace("\n", " ").split(",") if a.strip()]
        elif re.search(r"'%s' does not depend on any axioms" % re.escape(t), out):
            axs = []
        else:
            res["problems"].append("no axiom report for %s" % t)
            continue
        res["axioms"][t] = axs
        bad = [a for a in axs if a not in ALLOWED_AXIOMS]
        if bad:
            res["problems"].append("%s depends on %s" % (t, bad))
        else:
            res["discharged"] += 1
    if leanchecker and not res["problems"]:
        p = run(["lake", "env", "leanchecker", module], cwd=LEAN, check=False, timeout=3000)
        res["leanchecker"] = "ok" if p.returncode == 0 else p.stdout[-500:]
        if p.returncode != 0:
            res["problems"].append("leanchecker rejected %s" % module)
    res["ok"] = not res["problems"] and res["discharged"] == res["obligations"] and res["obligations"] > 0
    res["wall_s"] = round(time.time() - t0, 1)
    return res
