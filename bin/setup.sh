#!/bin/sh
# MANIFEST.setup_cmd: build everything the checks need from files on disk only (offline).
set -e
cd "$(dirname "$0")/.."
export GOFLAGS=-mod=mod GOPROXY=off GOSUMDB=off GOTOOLCHAIN=local CGO_ENABLED=0
mkdir -p .build evidence replays
(cd extract && for d in */; do d=${d%/}; [ -f "$d/main.go" ] && go build -o ../.build/$d ./$d; done)
# regenerate the facts once so that the Lean project builds from clean
python3 - <<'PY'
import sys, shutil
sys.path.insert(0, 'lib')
import build, facts
w = build.mkwork()
try:
    facts.regenerate('setup', w)
finally:
    shutil.rmtree(w, ignore_errors=True)
PY
(cd lean && lake build OlricModel olric_model 2>&1 | tail -3)
# warm the Go build cache for the harness
python3 - <<'PY'
import sys, shutil
sys.path.insert(0, 'lib')
import build
w = build.mkwork()
try:
    build.build_harness(w)
finally:
    shutil.rmtree(w, ignore_errors=True)
PY
echo setup done
